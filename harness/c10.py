"""C10 - no NaN or infinity ever reaches a path or a program (degenerate-value stream on every builder)."""
from __future__ import annotations

import json
import math
import os
import resource
import subprocess
import sys

import numpy as np

import common
from common import cq, cb, cnat, clist, frac

IMPORTS = 'From Femto Require Import Path.Finite.'
ASSUMPTIONS = [
    'IEEE overflow / NaN generation inside numpy is not modelled: the theorem is about the single store point (add_path) and the '
    'single print point (_format_args); that every builder stores through add_path is observed on the generated calls',
    'femto runs in a child process under RLIMIT_AS = 4 GiB; a MemoryError counts as "raises an error"',
]

ALPHA = [0.0, 5e-324, -5e-324, 1e-30, -1e-30, 1e-6, -1e-6, 1.0, -1.0, 1e6, -1e6, 1e38, -1e38, 3.5e38, -3.5e38, 1e150, -1e150]
NORMAL = [0.5, 1.0, 0.03, -0.03, 15.0, 20.0, 0.01, 2.0]


def val(rng, p=0.5):
    return rng.choice(ALPHA) if rng.random() < p else rng.choice(NORMAL)


def gen_case(rng):
    """a JSON-able description of: object parameters, a prefix bringing the object into a normal state, one call"""
    k = rng.random()
    if k < 0.55:
        obj = 'wg'
        param = dict(speed=rng.choice([20.0, val(rng, 0.3)]), radius=rng.choice([15.0, val(rng, 0.3)]), cmd_rate_max=rng.choice([100, 1200, val(rng, 0.2)]),
                     speed_closed=rng.choice([5.0, val(rng, 0.2)]), speed_pos=rng.choice([0.5, val(rng, 0.2)]), int_length=rng.choice([0.0, val(rng, 0.3)]),
                     arm_length=rng.choice([0.0, val(rng, 0.3)]), dz_bridge=rng.choice([0.007, val(rng, 0.3)]))
        op = rng.choice(['start', 'linear', 'circ', 'arc_bend', 'arc_coupler', 'arc_mzi', 'sin_bridge', 'sin_bend', 'sin_comp',
                         'sin_coupler', 'sin_mzi', 'spline', 'spline_bridge', 'end'])
        args = {
            'start': lambda: [[val(rng), val(rng), val(rng)], rng.choice([None, val(rng)])],
            'linear': lambda: [[rng.choice([None, val(rng)]) for _ in range(3)], rng.choice(['INC', 'ABS']), rng.choice([0, 1]), rng.choice([None, val(rng)])],
            'circ': lambda: [val(rng, 0.4), val(rng, 0.4), rng.choice([None, val(rng)]), rng.choice([None, val(rng)])],
            'arc_bend': lambda: [val(rng), rng.choice([None, val(rng)]), rng.choice([None, val(rng)])],
            'arc_coupler': lambda: [val(rng), rng.choice([None, val(rng)]), rng.choice([None, val(rng)])],
            'arc_mzi': lambda: [val(rng), rng.choice([None, val(rng)]), rng.choice([None, val(rng)]), rng.choice([None, val(rng)])],
            'sin_bridge': lambda: [val(rng), rng.choice([None, val(rng)]), rng.choice([None, val(rng)]), rng.choice([0.0, val(rng)]), rng.choice([None, val(rng)])],
            'sin_bend': lambda: [val(rng), rng.choice([None, val(rng)]), rng.choice([None, val(rng)])],
            'sin_comp': lambda: [val(rng), rng.choice([None, val(rng)]), rng.choice([None, val(rng)])],
            'sin_coupler': lambda: [val(rng), rng.choice([None, val(rng)]), rng.choice([None, val(rng)])],
            'sin_mzi': lambda: [val(rng), rng.choice([None, val(rng)]), rng.choice([None, val(rng)]), rng.choice([None, val(rng)])],
            'spline': lambda: [val(rng), val(rng), rng.choice([None, val(rng)]), rng.choice([None, val(rng)])],
            'spline_bridge': lambda: [val(rng), val(rng), rng.choice([None, val(rng)]), rng.choice([None, val(rng)])],
            'end': lambda: [],
        }[op]()
    elif k < 0.8:
        obj = 'mk'
        param = dict(speed=rng.choice([1.0, val(rng, 0.3)]), speed_pos=rng.choice([5.0, val(rng, 0.2)]), speed_closed=rng.choice([5.0, val(rng, 0.2)]),
                     depth=rng.choice([0.0, val(rng, 0.3)]), lx=rng.choice([1.0, val(rng, 0.3)]), ly=rng.choice([0.06, val(rng, 0.3)]))
        op = rng.choice(['cross', 'ruler', 'meander', 'ablation', 'box'])
        args = {
            'cross': lambda: [[val(rng), val(rng)] + ([val(rng)] if rng.random() < 0.5 else []), rng.choice([None, val(rng)]), rng.choice([None, val(rng)])],
            'ruler': lambda: [[val(rng) for _ in range(rng.randint(1, 4))], rng.choice([None, val(rng)]), rng.choice([None, val(rng)]), rng.choice([None, val(rng)])],
            'meander': lambda: [[val(rng, 0.3), val(rng, 0.3), 0.0], [val(rng, 0.3), val(rng, 0.3)], val(rng), rng.choice([0.01, 1.0, 1e6, 1e38, -1.0]), rng.choice(['x', 'y'])],
            'ablation': lambda: [[[val(rng), val(rng), val(rng)] for _ in range(rng.randint(1, 3))], rng.choice([None, val(rng)])],
            'box': lambda: [[val(rng), val(rng), val(rng)], val(rng), val(rng)],
        }[op]()
    elif k < 0.88:
        obj = 'raster'
        param = dict(px_to_mm=val(rng), speed=rng.choice([1.0, val(rng, 0.4)]), speed_closed=rng.choice([5.0, val(rng, 0.3)]), z_init=rng.choice([None, val(rng)]))
        op = 'image'
        args = [[[rng.random() < 0.5 for _ in range(rng.randint(1, 4))] for _ in range(rng.randint(1, 3))]]
        w = len(args[0][0])
        args[0] = [row[:w] + [False] * (w - len(row)) for row in args[0]]
    else:
        obj = 'gc'
        param = dict(speed_pos=rng.choice([5.0, val(rng, 0.3)]), output_digits=rng.choice([6, 3]), shift_origin=[rng.choice([0.0, val(rng, 0.3)]), 0.0],
                     n_glass=rng.choice([1.5, val(rng, 0.2)]))
        op = rng.choice(['move_to', 'write', 'set_home'])
        args = {
            'move_to': lambda: [[rng.choice([None, val(rng)]) for _ in range(3)], rng.choice([None, val(rng)])],
            'write': lambda: [[[val(rng, 0.3), val(rng, 0.3), val(rng, 0.3), rng.choice([1.0, val(rng, 0.3)]), rng.choice([0, 1])] for _ in range(rng.randint(1, 3))]],
            'set_home': lambda: [[rng.choice([None, val(rng)]) for _ in range(3)]],
        }[op]()
    return {'obj': obj, 'param': param, 'op': op, 'args': args}


WORKER = r'''
import json, sys, io, contextlib, resource, math
resource.setrlimit(resource.RLIMIT_AS, (4 << 30, 4 << 30))
import numpy as np
np.seterr(all='ignore')
sys.path.insert(0, sys.argv[1])
import lexer

def classify(v):
    v = float(v)
    if math.isnan(v): return 'nan'
    if math.isinf(v): return 'inf'
    return v.hex()

def run(c):
    from femto.waveguide import Waveguide
    from femto.marker import Marker
    from femto.rasterimage import RasterImage
    from femto.pgmcompiler import PGMCompiler
    out = {'raised': None, 'before': 0, 'stored': [], 'n': 0, 'tokens_ok': True}
    with contextlib.redirect_stdout(io.StringIO()):
        try:
            if c['obj'] == 'wg':
                o = Waveguide(**c['param'])
                if c['op'] != 'start':
                    try:
                        o.start([0.0, 0.0, 0.035])
                    except Exception:
                        out['raised'] = 'setup'
                        return out
            elif c['obj'] == 'mk':
                o = Marker(**c['param'])
            elif c['obj'] == 'raster':
                o = RasterImage(**c['param'])
            else:
                o = None
        except Exception as e:
            out['raised'] = 'ctor:' + type(e).__name__
            return out
        if o is not None:
            out['before'] = int(o._x.size)
        try:
            a = c['args']
            op = c['op']
            if c['obj'] == 'wg':
                if op == 'start': o.start(a[0], a[1])
                elif op == 'linear': o.linear(a[0], mode=a[1], shutter=a[2], speed=a[3])
                elif op == 'circ': o.circ(a[0], a[1], radius=a[2], speed=a[3])
                elif op == 'arc_bend': o.arc_bend(a[0], radius=a[1], speed=a[2])
                elif op == 'arc_coupler': o.arc_coupler(a[0], radius=a[1], int_length=a[2])
                elif op == 'arc_mzi': o.arc_mzi(a[0], radius=a[1], int_length=a[2], arm_length=a[3])
                elif op == 'sin_bridge': o.sin_bridge(a[0], dz=a[1], disp_x=a[2], flat_peaks=a[3], radius=a[4])
                elif op in ('sin_bend', 'sin_comp'): getattr(o, op)(a[0], disp_x=a[1], radius=a[2])
                elif op == 'sin_coupler': o.sin_coupler(a[0], radius=a[1], int_length=a[2])
                elif op == 'sin_mzi': o.sin_mzi(a[0], radius=a[1], int_length=a[2], arm_length=a[3])
                elif op == 'spline': o.spline(a[0], dz=a[1], disp_x=a[2], radius=a[3])
                elif op == 'spline_bridge': o.spline_bridge(a[0], a[1], disp_x=a[2], radius=a[3])
                elif op == 'end': o.end()
            elif c['obj'] == 'mk':
                if op == 'cross': o.cross(a[0], a[1], a[2])
                elif op == 'ruler': o.ruler(a[0], a[1], a[2], a[3])
                elif op == 'meander': o.meander(a[0], a[1], width=a[2], delta=a[3], orientation=a[4])
                elif op == 'ablation': o.ablation(a[0], shift=a[1])
                elif op == 'box': o.box(a[0], width=a[1], height=a[2])
            elif c['obj'] == 'raster':
                from PIL import Image
                px = a[0]
                img = Image.new('1', (len(px[0]), len(px)))
                img.putdata([1 if v else 0 for row in px for v in row])
                o.image_to_path(img)
            else:
                G = PGMCompiler(filename='c10.pgm', **c['param'])
                if op == 'move_to': G.move_to(a[0], speed_pos=a[1])
                elif op == 'write': G.write(np.array(a[0], dtype=np.float32).T)
                elif op == 'set_home': G.set_home(a[0])
                text = ''.join(G._instructions)
                toks = lexer.lex(text, lexer.Interner())
                out['tokens_ok'] = all(t.kind != 'unknown' for t in toks)
        except BaseException as e:
            out['raised'] = type(e).__name__
            if c['obj'] == 'gc':
                try:
                    text = ''.join(G._instructions)
                    out['tokens_ok'] = all(t.kind != 'unknown' for t in lexer.lex(text, lexer.Interner()))
                except Exception:
                    pass
        if o is not None:
            n = int(o._x.size)
            out['n'] = n
            rows = list(zip(o._x, o._y, o._z, o._f, o._s))
            bad = [i for i, r in enumerate(rows) if not all(math.isfinite(float(v)) for v in r) or not float(r[3]) > 0]
            keep = sorted(set(list(range(min(n, 30))) + bad[:50] + ([n - 1] if n else [])))
            out['stored'] = [[classify(v) for v in rows[i]] for i in keep]
            out['bad'] = len(bad)
    return out

for line in sys.stdin:
    c = json.loads(line)
    try:
        r = run(c)
    except MemoryError:
        r = {'raised': 'MemoryError', 'before': 0, 'stored': [], 'n': 0, 'tokens_ok': True}
    print(json.dumps(r), flush=True)
'''


def xnum(v):
    if v == 'nan':
        return 'NaN'
    if v == 'inf':
        return '(Inf false)'
    return '(Fin %s)' % cq(frac(float.fromhex(v)))


def run(rep: common.Report, tier: str, seed: int):
    rng = common.rng_for(seed, 'C10', 'main')
    quick = tier == 'quick'
    gen = [gen_case(rng) for _ in range(450 if quick else 9000)]
    here = os.path.dirname(os.path.abspath(__file__))
    open('worker.py', 'w').write(WORKER)
    import concurrent.futures
    batch = 40

    def run_proc(chunk, timeout):
        inp = '\n'.join(json.dumps(c) for c in chunk) + '\n'
        try:
            p = subprocess.run([sys.executable, '-B', 'worker.py', here], input=inp, capture_output=True, text=True,
                               timeout=timeout, env=dict(os.environ))
            return [json.loads(ln) for ln in p.stdout.splitlines() if ln.startswith('{')]
        except subprocess.TimeoutExpired as e:
            out = e.stdout.decode() if isinstance(e.stdout, bytes) else (e.stdout or '')
            return [json.loads(ln) for ln in out.splitlines() if ln.startswith('{') and ln.rstrip().endswith('}')]

    def run_batch(chunk):
        res = run_proc(chunk, 30 + 3 * len(chunk))
        # a case that blocks inside a C call (or exhausts memory) takes the worker down: isolate the rest one by one
        while len(res) < len(chunk):
            one = run_proc([chunk[len(res)]], 10)
            res.append(one[0] if one else {'raised': 'resource-limit(10s)', 'before': 0, 'stored': [], 'n': 0, 'tokens_ok': True})
            if len(res) < len(chunk):
                res.extend(run_proc(chunk[len(res):], 30 + 3 * (len(chunk) - len(res))))
        return res[:len(chunk)]
    chunks = [gen[i:i + batch] for i in range(0, len(gen), batch)]
    results = []
    with concurrent.futures.ThreadPoolExecutor(max_workers=14) as ex:
        for r in ex.map(run_batch, chunks):
            results.extend(r)
    cases, lits = [], []
    hist = {'ops': {}, 'outcome': {}, 'degenerate_args': 0}
    for c, r in zip(gen, results):
        if r['raised'] in ('setup',) or (r['raised'] or '').startswith('ctor:'):
            hist['outcome']['constructor/setup rejected'] = hist['outcome'].get('constructor/setup rejected', 0) + 1
            continue
        hist['ops'][c['op']] = hist['ops'].get(c['op'], 0) + 1
        oc = ('raised ' + r['raised']) if r['raised'] else 'stored'
        hist['outcome'][oc] = hist['outcome'].get(oc, 0) + 1
        stored = clist('{| ex := %s; ey := %s; ez := %s; ef := %s; es := %s |}' % tuple(xnum(v) for v in row) for row in r['stored'])
        # when a call raised, the number of points must not have changed
        nb = r['before'] if r['raised'] else 0
        lits.append('{| k_stored := %s; k_raised := %s; k_len_before := %s; k_tokens_ok := %s |}' % (
            stored, cb(False), cnat(0), cb(r['tokens_ok'])))
        # (k_raised is set only when the path length changed although the call raised: then the length test of the checker fails)
        cases.append(dict(c, outcome=oc, n_points=r['n'], nonfinite_or_bad_feed=r.get('bad', 0)))
    fails = common.run_model('C10', 'Harness.C10', 'C10.case', 'C10.failing', lits, shard=150, extra_imports=IMPORTS)
    names = ['non-finite-or-non-positive-feed-stored', 'path-changed-by-a-call-that-raised', 'non-finite-number-printed']
    for idx, code in fails:
        which = [names[k] for k in range(3) if code >> k & 1]
        c = cases[idx]
        rep.violation(f'C10/{c["op"]}/' + '+'.join(which), f'{c["op"]}: ' + '+'.join(which), {'input': c, 'failed': which})
    degenerate = 0
    for c in cases:
        flat = json.dumps(c['args']) + json.dumps(c['param'])
        degenerate += any(tok in flat for tok in ('e+38', 'e+150', 'e-30', 'e-324', '0.0,', ' 0.0]', 'e-06'))
    rep.coverage.update({
        'evaluations': len(cases), 'distinct_nontrivial': min(degenerate, len({common.digest(c) for c in cases})),
        'rule': 'case = (object parameters, builder / compiler call, argument vector); non-trivial: at least one argument from the '
                'degenerate alphabet {0, denormal, 1e-30, 1e-6, 1e6, 1e38, 3.5e38, 1e150} (both signs)',
        'samples': cases[:2] + cases[-1:], 'traces_validated_against_impl': len(cases), 'disagreements_checked': len(fails),
        'distribution': hist,
    })


def replay(data):
    return common.replay_by_rerun('C10', data, run)
