"""C01 - emitted G-code replays the compiled path point for point."""
from __future__ import annotations

import itertools
import json
import os

import numpy as np

import builders
import common
import lexer
import pgm
from common import cn, cb, clist, cq, frac

IMPORTS = 'From Femto Require Import Base.Num Ctl.Tok Geo.Rigid Pgm.Ops.'

ASSUMPTIONS = [
    'float64 rounding inside numpy matmul is not modelled: coordinates are compared within one unit of the last printed digit',
    'cos/sin/1/neff are read from femto\'s t_matrix (their values are checked by C02)',
    'the lexer (harness/lexer.py) maps each G-code line to one token; comments and blank lines are ignored',
]


def run_impl(cfgd, mat, bare):
    """Returns (text or None, raised kind, dwell_time, t_matrix)."""
    fn = 'c01.pgm'
    mat = np.array(mat, copy=True)     # femto shifts the caller's float32 rows in place (see C09)
    if os.path.exists(fn):
        os.remove(fn)
    raised = 0
    dwell = 0.0
    with pgm.quiet():
        if bare:
            G = pgm.make_compiler(cfgd, fn)
            try:
                if bare == 2:          # write() entered with the shutter open (a previous path left it open)
                    G.shutter('ON')
                G.write(mat)
            except ValueError:
                raised = 1
            finally:
                dwell = float(G.dwell_time)
                G.close()
        else:
            try:
                with pgm.make_compiler(cfgd, fn) as G:
                    try:
                        G.write(mat)
                    finally:
                        pass
            except ValueError:
                raised = 1
            try:
                dwell = float(G.dwell_time)
            except NameError:
                dwell = 0.0
    text = pgm.read_file(fn)
    return text, raised, dwell


def case_literal(cfgd, mat, bare, text, raised, dwell):
    tm = pgm.t_matrix_of(cfgd)
    it = lexer.Interner()
    toks = lexer.lex(text, it) if text is not None else []
    return ('{| k_cfg := %s; k_pts := %s; k_bare := %s; k_open0 := %s; k_toks := %s; k_written := %s; k_raised := %s; k_dwell := %s |}' % (
        pgm.cfg_literal(cfgd, tm), pgm.pts_literal(mat), cb(bare), cb(bare == 2), lexer.toks_literal(toks), cb(text is not None),
        cn(raised), cq(frac(dwell))))


def lattice_matrix(rng, n, digits=None):
    """random walk on a small lattice: repeats, pure feed changes, pure shutter changes and coincident changes"""
    xs = [k / 8 for k in range(-16, 17)]
    feeds = [0.5, 1.0, 2.0, 5.0, 20.0]
    x, y, z, f, s = rng.choice(xs), rng.choice(xs), rng.choice([0.0, 0.035, -0.125]), rng.choice(feeds), 0
    rows = [(x, y, z, f, s)]
    for _ in range(n - 1):
        k = rng.randrange(8)
        if k & 1:
            x = rng.choice(xs)
            if rng.random() < 0.5:
                y = rng.choice(xs)
            if rng.random() < 0.2:
                z = rng.choice([0.0, 0.035, -0.125])
        if k & 2:
            f = rng.choice(feeds)
        if k & 4:
            s = 1 - s
        rows.append((x, y, z, f, s))
    m = np.array(rows, dtype=np.float32)
    if digits is not None and rng.random() < 0.35:
        # coordinates around the printing resolution: 0.3, 0.7, 1.2 ... units of the last printed decimal
        u = 10.0 ** (-digits)
        for _ in range(rng.randint(1, 3)):
            i, j = rng.randrange(len(rows)), rng.randrange(3)
            m[i, j] = rng.choice([0.3, 0.7, -0.7, 0.97, 1.2, -1.6, 2.7]) * u + rng.choice([0.0, 0.0, m[i, j]])
    return m.T


def pattern_matrices(maxlen):
    """bounded-exhaustive (position-change, feed-change, shutter) patterns over a 2-value alphabet"""
    for n in range(1, maxlen + 1):
        for combo in itertools.product(range(8), repeat=n - 1):
            x, f, s = 0.0, 1.0, 0
            rows = [(x, 0.0, 0.0, f, s)]
            for k in combo:
                if k & 1:
                    x = 1.0 - x
                if k & 2:
                    f = 3.0 - f
                if k & 4:
                    s = 1 - s
                rows.append((x, 0.0, 0.0, f, s))
            yield np.array(rows, dtype=np.float32).T


def nontrivial(mat, stream):
    x, y, z, f, s = np.asarray(mat)
    if len(x) < 2:
        return False
    pos = set(zip(x.tolist(), y.tolist(), z.tolist()))
    sch = sum(1 for a, b in zip(s, s[1:]) if a != b)
    if sch < 1 or len(pos) < 3:
        return False
    if stream in ('lattice', 'patterns'):
        return any(s[i] != s[i - 1] and (x[i], y[i], z[i]) != (x[i - 1], y[i - 1], z[i - 1]) for i in range(1, len(x)))
    return True


def gen_cases(rng, tier):
    quick = tier == 'quick'
    # (stream, cfgd, matrix, bare, descr)
    for mat in pattern_matrices(4 if quick else 5):
        yield 'patterns', pgm.gen_cfg(rng, simple=rng.random() < 0.5, allow_bad_laser=False), mat, True, None
    for _ in range(260 if quick else 4000):
        n = rng.choice([1, 2, 3, 5, 8, 13, 30, 60])
        cfgd = pgm.gen_cfg(rng)
        yield 'lattice', cfgd, lattice_matrix(rng, n, cfgd.get('output_digits', 6)), rng.random() < 0.6, None
    for _ in range(120 if quick else 2500):
        param, calls = builders.gen_wg_calls(rng)
        try:
            wg = builders.build_wg(param, calls)
        except Exception:
            continue
        yield 'waveguide', pgm.gen_cfg(rng), wg.points, rng.random() < 0.6, {'param': param, 'calls': calls}
    for _ in range(100 if quick else 1500):
        param, call = builders.gen_marker_call(rng)
        try:
            mk = builders.build_marker(param, call)
        except Exception:
            continue
        if mk.points.ndim != 2:
            continue
        yield 'marker', pgm.gen_cfg(rng), mk.points, rng.random() < 0.6, {'param': param, 'call': call}
    for _ in range(60 if quick else 800):
        param, px = builders.gen_image(rng)
        r = builders.build_raster(param, px)
        if r.points.ndim != 2:
            continue
        yield 'raster', pgm.gen_cfg(rng), r.points, rng.random() < 0.6, {'param': param, 'px': px}
    # malformed stream: feeds below the printable limit, shutter values other than 0/1, float64 input (Nasu style)
    for _ in range(40 if quick else 400):
        mat = lattice_matrix(rng, rng.choice([2, 5, 9])).astype(np.float64)
        k = rng.random()
        if k < 0.4:
            mat[3, rng.randrange(mat.shape[1])] = rng.choice([0.0, -1.0, 1e-12])
        elif k < 0.7:
            mat[4, rng.randrange(mat.shape[1])] = rng.choice([2.0, 0.5, -1.0])
        else:
            mat[0:3] += 0.0004 * rng.choice([0.5, -1.5, 2.5])
        yield 'malformed', pgm.gen_cfg(rng), mat, rng.random() < 0.6, None


def run(rep: common.Report, tier: str, seed: int):
    rng = common.rng_for(seed, 'C01', 'main')
    cases, lits = [], []
    hist = {'streams': {}, 'points': {}, 'digits': {}, 'raised': 0, 'bare': 0}
    corpus = common.VERIF / 'corpus' / 'C01'
    pre = []
    if corpus.exists():
        for p in sorted(corpus.glob('*.json')):
            d = json.loads(p.read_text())
            pre.append(('corpus', d['cfg'], np.array(d['matrix'], dtype=np.dtype(d.get('dtype', 'float32'))), d['bare'], None))
    for stream, cfgd, mat, bare, descr in itertools.chain(pre, gen_cases(rng, tier)):
        if bare and (cfgd.get('laser', 'PHAROS') is None or str(cfgd.get('laser', 'PHAROS')).lower() not in ('ant', 'carbide', 'pharos', 'uwe')):
            cfgd = dict(cfgd, laser='PHAROS')    # an invalid laser is only meaningful for the context-manager session
        if bare is True and stream != 'corpus' and rng.random() < 0.3:
            bare = 2
        text, raised, dwell = run_impl(cfgd, mat, bare)
        cases.append({'stream': stream, 'cfg': cfgd, 'matrix': np.asarray(mat).tolist(), 'dtype': str(np.asarray(mat).dtype),
                      'bare': bare, 'built_by': descr, 'raised': raised})
        lits.append(case_literal(cfgd, mat, bare, text, raised, dwell))
        hist['streams'][stream] = hist['streams'].get(stream, 0) + 1
        n = np.asarray(mat).shape[1]
        b = 1 << (n.bit_length())
        hist['points'][b] = hist['points'].get(b, 0) + 1
        dg = cfgd.get('output_digits', 6)
        hist['digits'][dg] = hist['digits'].get(dg, 0) + 1
        hist['raised'] += 1 if raised else 0
        hist['bare'] += 1 if bare else 0
        hist['open_at_entry'] = hist.get('open_at_entry', 0) + (1 if bare == 2 else 0)
    fails = common.run_model('C01', 'Harness.C01', 'C01.case', 'C01.failing', lits, shard=60, extra_imports=IMPORTS)
    names = ['written', 'exception', 'tokens', 'dwell', 'replay', 'accuracy']
    for idx, code in fails:
        which = [names[k] for k in range(len(names)) if code >> k & 1]
        c = cases[idx]
        if c.get('raised') and c['bare'] and 'tokens' in which and 'exception' not in which:
            # write() refused the path (both sides raise) but femto's program is not what it was before the call: the theorem's
            # first disjunct (a refused write emits nothing) fails on this input
            rep.violation('C01/partial-emission-on-refusal/' + c['stream'],
                          'write() raised on a refused value but had already emitted part of the path', {'input': c, 'failed': which})
        elif 'replay' in which:
            rep.violation('C01/replay/' + c['stream'], 'the emitted program does not replay the point matrix', {'input': c, 'failed': which})
        elif 'accuracy' in which:
            rep.violation('C01/accuracy/' + c['stream'], 'a printed coordinate is farther than half a unit of the last decimal from '
                          'the exact transformed path point', {'input': c, 'failed': which})
        else:
            # correspondence broke but the replay monitor accepts femto's file (or does not apply)
            rep.violation('C01/correspondence/' + '+'.join(which) + '/' + c['stream'],
                          'model and femto disagree on ' + '+'.join(which),
                          {'input': c, 'failed': which, 'correspondence': 'Harness.C01.check (token stream of write)'},
                          no_input=True)
    seen, nt = set(), 0
    for c in cases:
        h = common.digest([c['cfg'], c['matrix'], c['bare']])
        if h in seen:
            continue
        seen.add(h)
        if nontrivial(np.array(c['matrix']), c['stream']):
            nt += 1
    import c03
    n_sw = c03.several_writes(rep, 'C01', tier, seed)      # several paths in one file (op lists: C03's session checker)
    hist['streams']['several-writes-in-one-file'] = n_sw
    rep.coverage.update({
        'evaluations': len(cases) + n_sw, 'distinct_nontrivial': nt,
        'rule': 'case = (cfg, point matrix, bare/session); non-trivial: >=1 shutter change and >=3 distinct positions, and for '
                'the lattice/pattern streams a shutter change that coincides with a displacement',
        'samples': [cases[i] for i in (0, len(cases) // 2, len(cases) - 1)],
        'traces_validated_against_impl': len(cases), 'disagreements_checked': len(fails), 'distribution': hist,
    })


def replay(data):
    c = data['input']
    if 'ops' in c:
        import c03
        return c03.replay(data, 'C01')
    mat = np.array(c['matrix'], dtype=np.dtype(c.get('dtype', 'float32')))
    common.fresh_cwd('C01')
    text, raised, dwell = run_impl(c['cfg'], mat, c['bare'])
    lit = case_literal(c['cfg'], mat, c['bare'], text, raised, dwell)
    fails = common.run_model('C01', 'Harness.C01', 'C01.case', 'C01.failing', [lit], tag='replay', extra_imports=IMPORTS)
    print('replay:', 'FAILS' if fails else 'passes', fails)
    return 1 if fails else 0
