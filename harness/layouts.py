"""Waveguide layouts and trench columns for C05 / C06."""
from __future__ import annotations

import numpy as np

import pgm


def gen_layout(rng, allow_tilt=True):
    """1..8 non-crossing waveguides through / near a column. Returns (list of Waveguide, descr)."""
    from femto.waveguide import Waveguide
    n = rng.choice([1, 1, 2, 3, 4, 6, 8])
    pitch = rng.choice([0.08, 0.127, 0.2])
    kind = rng.choice(['straight', 'sin_coupler', 'arc_bend', 'bridge', 'mixed', 'tilted' if allow_tilt else 'straight', 'short'])
    x_c = rng.choice([2.0, 3.5])
    wgs, calls_all = [], []
    for i in range(n):
        y0 = 0.1 + i * pitch
        param = dict(speed=20, radius=rng.choice([15, 25]), pitch=pitch, int_dist=0.007, int_length=0.0, cmd_rate_max=400,
                     samplesize=(8, 3), lsafe=1)
        k = kind if kind != 'mixed' else rng.choice(['straight', 'sin_coupler', 'arc_bend'])
        calls = [('start', [-1.0, y0, 0.035])]
        if k == 'straight':
            calls.append(('linear', [8.5, None, None], 'ABS'))
        elif k == 'sin_coupler':
            calls.append(('linear', [x_c - 1.2, None, None], 'ABS'))
            calls.append(('sin_coupler', (-1) ** i * 0.5 * (pitch - 0.007)))
            calls.append(('linear', [8.5, None, None], 'ABS'))
        elif k == 'arc_bend':
            calls.append(('linear', [x_c - 0.8, None, None], 'ABS'))
            calls.append(('arc_bend', 0.03))
            calls.append(('linear', [8.5, None, None], 'ABS'))
        elif k == 'bridge':
            calls.append(('linear', [x_c - 0.6, None, None], 'ABS'))
            calls.append(('sin_bridge', (-1) ** i * 0.02, 0.01))
            calls.append(('linear', [8.5, None, None], 'ABS'))
        elif k == 'tilted':
            calls.append(('linear', [x_c - 1.0, None, None], 'ABS'))
            calls.append(('linear', [rng.choice([0.3, 0.05, 1.0]), rng.choice([0.3, -0.08, 0.05]), 0.0], 'INC'))
            calls.append(('linear', [8.5, None, None], 'ABS'))
        else:   # ends inside the column
            calls.append(('linear', [x_c + rng.choice([-0.2, 0.0, 0.3]), None, None], 'ABS'))
        calls.append(('end',))
        with pgm.quiet():
            wg = Waveguide(**param)
            for c in calls:
                if c[0] == 'start':
                    wg.start(list(c[1]))
                elif c[0] == 'linear':
                    wg.linear(list(c[1]), mode=c[2])
                elif c[0] == 'sin_coupler':
                    wg.sin_coupler(c[1])
                elif c[0] == 'arc_bend':
                    wg.arc_bend(c[1])
                elif c[0] == 'sin_bridge':
                    wg.sin_bridge(c[1], dz=c[2])
                elif c[0] == 'end':
                    wg.end()
        wgs.append(wg)
        calls_all.append(calls)
    return wgs, {'n': n, 'pitch': pitch, 'kind': kind, 'x_center': x_c, 'calls': calls_all}


def gen_column(rng, descr, utrench=False):
    from femto.trench import TrenchColumn, UTrenchColumn
    n, pitch = descr['n'], descr['pitch']
    top = 0.1 + (n - 1) * pitch
    ymode = rng.random()
    if ymode < 0.6:
        y_min, y_max = 0.1 - rng.choice([0.05, 0.1, 0.3]), top + rng.choice([0.05, 0.1, 0.3])
    elif ymode < 0.8:      # a waveguide grazes / lies outside the rectangle: fewer blocks, possibly one
        y_min, y_max = 0.1 + rng.choice([-0.01, 0.0, 0.02]), top + rng.choice([0.1, 0.3])
    else:
        y_min, y_max = 0.1 - 0.2, top + rng.choice([-0.01, 0.0, 0.01, 0.2])
    if y_max <= y_min + 0.02:
        y_max = y_min + 0.2
    kw = dict(x_center=descr['x_center'] + rng.choice([0.0, 0.1, -0.3]), y_min=y_min, y_max=y_max,
              bridge=rng.choice([0.026, 0.02, 0.04]), length=rng.choice([0.3, 1.0, 1.5]), beam_waist=rng.choice([0.004, 0.002]),
              round_corner=rng.choice([0.010, 0.005, 0.0]), delta_floor=rng.choice([0.004, 0.008]), safe_inner_turns=rng.choice([2, 3]),
              nboxz=rng.choice([1, 2, 3]), h_box=rng.choice([0.05, 0.075]), z_off=rng.choice([-0.02, 0.0, -0.035]),
              deltaz=rng.choice([0.02, 0.01, 0.007, 0.033]), speed_wall=rng.choice([4.0, 2.5]), speed_floor=rng.choice([None, 3.0]),
              speed_closed=rng.choice([5.0, 10.0]), u=rng.choice([None, [30.0, 32.5], []]), base_folder=rng.choice(['', 'C:/lab/pgm']))
    if utrench:
        kw.update(n_pillars=rng.choice([0, 1, 2]), pillar_width=rng.choice([0.04, 0.02]))
    cls = UTrenchColumn if utrench else TrenchColumn
    with pgm.quiet():
        col = cls(**kw)
    return col, kw
