"""C08 - writers repeat each structure the configured number of times; file names; empty writers write nothing."""
from __future__ import annotations

import os
import pathlib
import shutil

import numpy as np

import builders
import common
import lexer
import pgm
from common import cn, cz, cb, clist, cq, frac

IMPORTS = 'From Femto Require Import Base.Num Ctl.Tok Geo.Rigid Pgm.Ops Writers.Writers.'
ASSUMPTIONS = [
    'file naming (stem + _WG/_NASU/_MK inside export_dir) and "no file for an empty writer" are checked on the file system by '
    'the harness (pathlib stem as the only helper), not modelled in Coq',
    'Nasu shifts are applied in float64 by numpy; the model rounds with rnd64 at each operation',
]


def wobj_lit(obj):
    return '{| w_scan := %s; w_pts := %s |}' % (cz(obj.scan), pgm.pts_literal(obj.points))


def gen_job(rng):
    from femto.waveguide import NasuWaveguide
    k = rng.random()
    descr = {}
    if k < 0.4:
        groups, gd = [], []
        for _ in range(rng.randint(0 if rng.random() < 0.1 else 1, 3)):
            size = rng.choice([1, 1, 2, 3])
            scan = rng.randint(1, 5)
            members, md = [], []
            for _ in range(size):
                param, calls = builders.gen_wg_calls(rng, max_ops=3)
                param['scan'] = scan if rng.random() < 0.8 else rng.randint(1, 5)
                param['cmd_rate_max'] = 30
                members.append(builders.build_wg(param, calls))
                md.append({'param': param, 'calls': calls})
            grouped = size > 1 or rng.random() < 0.3
            groups.append(members if grouped else members[0])
            gd.append({'grouped': grouped, 'members': md})
        return 'WG', groups, {'groups': gd}
    if k < 0.7:
        objs, od = [], []
        for _ in range(rng.randint(0 if rng.random() < 0.1 else 1, 3)):
            param, calls = builders.gen_wg_calls(rng, max_ops=2)
            param['cmd_rate_max'] = 30
            param['adj_scan'] = rng.randint(1, 8)
            param['adj_scan_shift'] = (rng.choice([0, 0.001]), rng.choice([0.0004, 0.0, -0.002]), rng.choice([0, 0.0005]))
            objs.append(builders.build_wg(param, calls, cls=NasuWaveguide))
            od.append({'param': param, 'calls': calls})
        return 'NASU', objs, {'objs': od}
    objs, od = [], []
    for _ in range(rng.randint(0 if rng.random() < 0.1 else 1, 4)):
        param, call = builders.gen_marker_call(rng)
        mk = builders.build_marker(param, call)
        if mk.points.ndim != 2:
            continue
        objs.append(mk)
        od.append({'param': param, 'call': call})
    return 'MK', objs, {'objs': od}


SUFFIX = {'WG': '_WG.pgm', 'NASU': '_NASU.pgm', 'MK': '_MK.pgm'}


def flat(objs):
    return [o for g in objs for o in (g if isinstance(g, list) else [g])]


def remutate(rng, kind, objs):
    """scans / adjacent-pass settings are public attributes: changed between two exports of the same writer"""
    for o in flat(objs):
        if kind == 'NASU':
            o.adj_scan = rng.randint(1, 8)
            o.adj_scan_shift = (rng.choice([0, 0.002]), rng.choice([0.0003, 0.0, -0.001]), rng.choice([0, 0.0004]))
        elif rng.random() < 0.7:
            o.scan = rng.randint(1, 5)
    if kind == 'WG':
        for g in objs:        # a group shares the repeat count of its first member; keep the others' scans as generated
            pass


def run_writer(kind, objs, cfgd, filename, export_dir, again=None):
    from femto.writer import WaveguideWriter, NasuWriter, MarkerWriter
    for p in pathlib.Path('.').iterdir():
        if p.is_dir():
            shutil.rmtree(p)
        else:
            p.unlink()
    param = dict(cfgd, filename=filename, export_dir=export_dir)
    with pgm.quiet():
        if kind == 'WG':
            w = WaveguideWriter(list(objs), **param)
        elif kind == 'NASU':
            w = NasuWriter(list(objs), **param)
        else:
            w = MarkerWriter(list(objs), **param)
        raised = 0
        try:
            w.pgm(verbose=False)
            if again is not None:
                again()
                for p in pathlib.Path('.').rglob('*.pgm'):
                    p.unlink()
                w.pgm(verbose=False)
        except ValueError:
            raised = 1
        except Exception as e:          # any other exception: the export itself fails
            raised = 'export raised ' + type(e).__name__ + ': ' + str(e)[:200]
    files = sorted(str(p) for p in pathlib.Path('.').rglob('*') if p.is_file())
    expected = str(pathlib.Path(export_dir) / (pathlib.PurePosixPath(filename).stem + SUFFIX[kind]))
    return files, expected, raised


def job_lit(kind, objs):
    if kind == 'WG':
        return '(JWg %s)' % clist(clist(wobj_lit(w) for w in (g if isinstance(g, list) else [g])) for g in objs)
    if kind == 'MK':
        return '(JMk %s)' % clist(wobj_lit(m) for m in objs)
    return '(JNasu %s)' % clist(
        '{| n_adj := %s; n_shift := (%s, %s, %s); n_pts := %s |}' % (
            cz(n.adj_scan), *(cq(frac(v)) for v in n.adj_scan_shift), pgm.pts_literal(n.points)) for n in objs)


def run(rep: common.Report, tier: str, seed: int):
    rng = common.rng_for(seed, 'C08', 'main')
    quick = tier == 'quick'
    cases, lits = [], []
    hist = {'kinds': {}, 'empty': 0, 'scans': {}, 'adj': {}}
    for _ in range(120 if quick else 1500):
        kind, objs, descr = gen_job(rng)
        cfgd = pgm.gen_cfg(rng, allow_bad_laser=False)
        filename = rng.choice(['dev.pgm', 'dev', 'chip.v2.pgm', 'sub/dev.pgm'])
        export_dir = rng.choice(['', '', 'out', 'out/deep'])
        twice = bool(objs) and rng.random() < 0.3
        files, expected, raised = run_writer(kind, objs, cfgd, filename, export_dir,
                                             again=(lambda: remutate(rng, kind, objs)) if twice else None)
        case = dict(descr, kind=kind, cfg=cfgd, filename=filename, export_dir=export_dir, exported_twice_with_changed_scans=twice)
        if isinstance(raised, str):
            rep.violation(f'C08/{kind}/export-raises', f'the {kind} writer could not export: {raised}', {'input': case})
            continue
        hist['kinds'][kind] = hist['kinds'].get(kind, 0) + 1
        # naming / emptiness (file-system level)
        if not objs:
            hist['empty'] += 1
            if files:
                rep.violation(f'C08/{kind}/empty-writer-wrote-files', f'a {kind} writer holding no object wrote {files}', {'input': case})
            continue
        if files != [expected] and not (raised and files == []):
            rep.violation(f'C08/{kind}/file-name', f'expected exactly {expected}, found {files}', {'input': case, 'files': files})
            continue
        written = files == [expected]        # (an exception in __exit__, e.g. homing below the printable feed, leaves no file)
        text = pgm.read_file(expected) if written else ''
        tm = pgm.t_matrix_of(cfgd)
        it = lexer.Interner()
        toks = lexer.lex(text, it)
        order = clist(clist(cz(int(round(2 * k))) for k in n.adj_scan_order) for n in objs) if kind == 'NASU' else '[]'
        lits.append('{| k_cfg := %s; k_job := %s; k_toks := %s; k_written := %s; k_raised := %s; k_order := %s |}' % (
            pgm.cfg_literal(cfgd, tm), job_lit(kind, objs), lexer.toks_literal(toks), cb(written), cn(raised), order))
        cases.append(case)
        for o in (objs if kind != 'WG' else [m for g in objs for m in (g if isinstance(g, list) else [g])]):
            hist['scans'][o.scan] = hist['scans'].get(o.scan, 0) + 1
            if kind == 'NASU':
                hist['adj'][o.adj_scan] = hist['adj'].get(o.adj_scan, 0) + 1
    fails = common.run_model('C08', 'Harness.C08', 'C08.case', 'C08.failing', lits, shard=12, extra_imports=IMPORTS)
    import c03
    for idx, code in fails:
        which = [c03.NAMES[k] for k in range(len(c03.NAMES)) if code >> k & 1]
        if code & 4096:
            which.append('nasu-order')
        c = cases[idx]
        mon = [w for w in which if w in c03.MONITOR_BITS or w == 'nasu-order']
        if mon:
            rep.violation(f'C08/{c["kind"]}/' + '+'.join(mon), f'{c["kind"]} file fails on the reference controller / pass order: ' + '+'.join(mon),
                          {'input': c, 'failed': which})
        else:
            rep.violation(f'C08/correspondence/{c["kind"]}/' + '+'.join(which), 'model and femto disagree on ' + '+'.join(which),
                          {'input': c, 'failed': which, 'correspondence': 'Harness.C08.check'}, no_input=True)
    nt = 0
    seen = set()
    for c in cases:
        h = common.digest(c)
        if h in seen:
            continue
        seen.add(h)
        if c['kind'] == 'WG':
            nt += any(g['grouped'] and len(g['members']) >= 2 or g['members'][0]['param']['scan'] > 1 for g in c['groups'])
        elif c['kind'] == 'NASU':
            nt += any(o['param']['adj_scan'] >= 2 for o in c['objs'])
        else:
            nt += any(o['param']['scan'] > 1 for o in c['objs'])
    rep.coverage.update({
        'evaluations': len(cases) + hist['empty'], 'distinct_nontrivial': nt,
        'rule': 'case = (object lists, cfg, filename, export_dir); non-trivial: some scan > 1 or a group of >= 2, adj_scan >= 2',
        'samples': cases[:1] + cases[-1:], 'traces_validated_against_impl': len(cases), 'disagreements_checked': len(fails),
        'distribution': hist,
    })


def replay(data):
    return common.replay_by_rerun('C08', data, run)
