"""C12 - reported dwell = executed dwell (shares the session histories of C03); fabrication-time estimate =
scans x travel time of one pass."""
from __future__ import annotations

import numpy as np

import builders
import c03
import common
import lexer
import pgm
from common import cn, cz, cb, clist, cq, frac

ASSUMPTIONS = c03.ASSUMPTIONS + [
    'float summation error of dwell_time / fabrication_time is covered by a 1e-9 / 1e-6 relative tolerance',
    'square roots of the travel-time model are rational approximations with 12 decimals (Harness/C12.v)',
]


def run(rep, tier, seed):
    c03.run_for('C12', rep, tier, seed)
    run_time(rep, tier, seed)


def run_time(rep, tier, seed):
    rng = common.rng_for(seed, 'C12', 'time')
    quick = tier == 'quick'
    cases, lits = [], []
    for _ in range(120 if quick else 1500):
        k = rng.random()
        if k < 0.6:
            param, calls = builders.gen_wg_calls(rng, max_ops=4)
            try:
                obj = builders.build_wg(param, calls)
            except Exception:
                continue
            descr = {'kind': 'waveguide', 'param': param, 'calls': calls}
        elif k < 0.85:
            param, call = builders.gen_marker_call(rng)
            try:
                obj = builders.build_marker(param, call)
            except Exception:
                continue
            if obj._x.size == 0:
                continue
            descr = {'kind': 'marker', 'param': param, 'call': call}
        else:
            param, px = builders.gen_image(rng)
            obj = builders.build_raster(param, px)
            if obj._x.size == 0:
                continue
            obj.scan = rng.randint(1, 4)
            descr = {'kind': 'raster', 'param': param, 'px': px, 'scan': obj.scan}
        raw = np.stack([obj._x, obj._y, obj._z, obj._f, obj._s]).astype(np.float64)
        if rng.random() < 0.35:
            # the estimate is read once, then the (public) number of scans is changed: the estimate must follow
            _ = float(obj.fabrication_time)
            obj.scan = obj.scan + rng.choice([1, 3]) if obj.scan < 3 else obj.scan - rng.choice([1, 2])
            descr['scan_reassigned_to'] = obj.scan
        t = float(obj.fabrication_time)
        # one pass of the compiled program (index ratio 1, no other transformation)
        cfgd = dict(laser='PHAROS', n_glass=1.0, n_environment=1.0, output_digits=9, long_pause=rng.choice([0.5, None]), short_pause=0.1)
        with pgm.quiet():
            G = pgm.make_compiler(cfgd, 'c12t.pgm')
            G.write(np.array(obj.points, copy=True))
            G.close()
        it = lexer.Interner()
        toks = lexer.lex(pgm.read_file('c12t.pgm'), it)
        cases.append(descr)
        closed = bool(raw[0][0] == raw[0][-1] and raw[1][0] == raw[1][-1] and raw[2][0] == raw[2][-1])
        descr['closed'] = closed
        lits.append('{| t_raw := %s; t_scan := %s; t_time := %s; t_toks := %s; t_closed := %s |}' % (
            pgm.pts_literal(raw), cz(obj.scan), cq(frac(t)), lexer.toks_literal(toks), cb(closed)))
    fails = common.run_model('C12', 'Harness.C12', 'C12.tcase', 'C12.failing', lits, shard=40, extra_imports=c03.IMPORTS,
                             tag='time')
    for idx, code in fails:
        rep.violation('C12/fabrication-time', 'fabrication_time differs from scans x travel time of the compiled pass',
                      {'input': cases[idx], 'code': code, 'kind': 'time'})
    rep.coverage['evaluations'] += len(cases)
    rep.coverage['distinct_nontrivial'] += sum(1 for c in cases if c['closed'] and c.get('scan', c.get('param', {}).get('scan', 1)) >= 2)
    rep.coverage['rule'] += '; time case = (closed path, scan), non-trivial when scan >= 2'
    rep.coverage['time_cases'] = len(cases)
    rep.coverage['samples'].append(cases[0] if cases else None)


def replay(data):
    if data.get('kind') == 'time':
        return common.replay_by_rerun('C12', data, run)
    return c03.replay(data, 'C12')
