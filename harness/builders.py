"""Random (replayable) call sequences on femto's path builders: Waveguide, Marker, RasterImage."""
from __future__ import annotations

import numpy as np

from pgm import quiet


def gen_wg_calls(rng, max_ops=6, closed_linear=True):
    """A call list for a Waveguide: start, segment ops, end."""
    param = dict(scan=rng.randint(1, 4), speed=rng.choice([5.0, 20.0, 7.5]), radius=rng.choice([15.0, 25.0, 40.0]),
                 pitch=0.08, int_dist=rng.choice([0.007, 0.01]), int_length=rng.choice([0.0, 0.5, -0.25]),
                 arm_length=rng.choice([0.0, 0.75]), lsafe=2.0, samplesize=(25, 10),
                 cmd_rate_max=rng.choice([40, 100, 250]), speed_closed=rng.choice([5, 10.0]), speed_pos=rng.choice([0.5, 3.0]),
                 depth=rng.choice([0.035, -0.1, 0.0]))
    calls = [('start', [rng.choice([-2.0, 0.0, 0.125]), rng.choice([0.0, 0.25, -1.5]), rng.choice([0.035, 0.0, -0.1])])]
    n = rng.randint(1, max_ops)
    for _ in range(n):
        k = rng.random()
        dy = rng.choice([0.03, -0.03, 0.0365, -0.0365, 0.1, -0.2])
        spd = rng.choice([None, None, 10.0, 33.0])
        if k < 0.25:
            inc = [rng.choice([0.0, 0.5, 1.0, -0.25, None]), rng.choice([0.0, 0.0, 0.125, None]), rng.choice([0.0, 0.0, 0.01, None])]
            mode = rng.choice(['INC', 'INC', 'ABS'])
            calls.append(('linear', inc, mode, 1, spd))
        elif k < 0.35 and closed_linear:
            inc = [rng.choice([0.5, -0.5, 0.0]), rng.choice([0.25, 0.0]), 0.0]
            calls.append(('linear', inc, 'INC', 0, spd))
        elif k < 0.45:
            calls.append(('arc_bend', dy, rng.choice([None, 20.0]), spd))
        elif k < 0.55:
            calls.append(('sin_bend', dy, rng.choice([None, 20.0]), spd))
        elif k < 0.62:
            calls.append(('arc_coupler', dy, spd))
        elif k < 0.70:
            calls.append(('sin_coupler', dy, spd))
        elif k < 0.75:
            calls.append(('arc_mzi', dy, spd))
        elif k < 0.80:
            calls.append(('sin_mzi', dy, spd))
        elif k < 0.86:
            calls.append(('sin_bridge', dy, rng.choice([0.01, -0.02, None]), spd))
        elif k < 0.90:
            calls.append(('sin_comp', dy, spd))
        elif k < 0.95:
            calls.append(('spline', dy, rng.choice([0.0, 0.02, -0.01]), rng.choice([None, 1.5]), spd))
        else:
            calls.append(('spline_bridge', dy, rng.choice([0.02, -0.01]), rng.choice([None, 1.5]), spd))
    calls.append(('end',))
    return param, calls


def build_wg(param, calls, cls=None):
    from femto.waveguide import Waveguide
    with quiet():
        wg = (cls or Waveguide)(**param)
        for c in calls:
            apply_wg_call(wg, c)
    return wg


def apply_wg_call(wg, c):
    k = c[0]
    if k == 'start':
        wg.start(list(c[1]))
    elif k == 'end':
        wg.end()
    elif k == 'linear':
        wg.linear(list(c[1]), mode=c[2], shutter=c[3], speed=c[4])
    elif k == 'arc_bend':
        wg.arc_bend(c[1], radius=c[2], speed=c[3])
    elif k == 'sin_bend':
        wg.sin_bend(c[1], radius=c[2], speed=c[3])
    elif k == 'arc_coupler':
        wg.arc_coupler(c[1], speed=c[2])
    elif k == 'sin_coupler':
        wg.sin_coupler(c[1], speed=c[2])
    elif k == 'arc_mzi':
        wg.arc_mzi(c[1], speed=c[2])
    elif k == 'sin_mzi':
        wg.sin_mzi(c[1], speed=c[2])
    elif k == 'sin_bridge':
        wg.sin_bridge(c[1], dz=c[2], speed=c[3])
    elif k == 'sin_comp':
        wg.sin_comp(c[1], speed=c[2])
    elif k == 'spline':
        wg.spline(c[1], dz=c[2], disp_x=c[3], speed=c[4])
    elif k == 'spline_bridge':
        wg.spline_bridge(c[1], c[2], disp_x=c[3], speed=c[4])
    else:
        raise ValueError(k)


def gen_marker_call(rng):
    param = dict(scan=rng.randint(1, 3), speed=rng.choice([1.0, 2.0]), speed_pos=rng.choice([5.0, 0.5]),
                 speed_closed=rng.choice([5, 3.0]), depth=rng.choice([0.0, -0.001, 0.01]),
                 lx=rng.choice([1.0, 0.5]), ly=rng.choice([0.06, 0.25]))
    k = rng.random()
    if k < 0.25:
        pos = [rng.choice([0.0, 1.0, -2.5]), rng.choice([0.0, 0.5])] + ([rng.choice([0.0, 0.02])] if rng.random() < 0.6 else [])
        call = ('cross', pos, rng.choice([None, 0.75, 2.0, 3]), rng.choice([None, 0.125, 1]))
    elif k < 0.45:
        ticks = [rng.choice([0.0, 0.1, 0.2, 0.5, -0.3, 1.0]) for _ in range(rng.randint(1, 6))]
        # lengths also as python ints (a legitimate way to write 2 mm)
        call = ('ruler', ticks, rng.choice([None, 1.0, 2.0, 2.5, 3]), rng.choice([None, 0.5, 2, 1]), rng.choice([None, 0.0, -1.0, 0.25, 1]))
    elif k < 0.65:
        p0 = [rng.choice([0.0, 1.0]), rng.choice([0.0, -0.5]), rng.choice([0.0, 0.01])]
        ext = rng.choice([0.0101, 0.0349, -0.0251, 0.0, 0.005])
        orient = rng.choice(['x', 'y', 'X'])
        p1 = [p0[0] + (ext if orient.lower() == 'y' else 0.3), p0[1] + (ext if orient.lower() == 'x' else 0.3), p0[2]]
        call = ('meander', p0, p1, rng.choice([1.0, 0.5, -0.25]), 0.01, orient)
    elif k < 0.85:
        n = rng.randint(1, 5)
        pts = [[rng.choice([0.0, 1.0, 2.0, -1.0]), rng.choice([0.0, 0.5, 1.5]), rng.choice([0.0, 0.01])] for _ in range(n)]
        call = ('ablation', pts, rng.choice([None, None, 0.01, -0.02]))
    else:
        call = ('box', [rng.choice([0.0, 1.0]), rng.choice([0.0, -1.0]), rng.choice([0.0, 0.01])],
                rng.choice([1.0, -2.0, 0.5]), rng.choice([0.06, -0.1, 0.25]))
    return param, call


def build_marker(param, call):
    from femto.marker import Marker
    with quiet():
        mk = Marker(**param)
        k = call[0]
        if k == 'cross':
            mk.cross(list(call[1]), call[2], call[3])
        elif k == 'ruler':
            mk.ruler(list(call[1]), call[2], call[3], call[4])
        elif k == 'meander':
            mk.meander(list(call[1]), list(call[2]), width=call[3], delta=call[4], orientation=call[5])
        elif k == 'ablation':
            mk.ablation([list(p) for p in call[1]], shift=call[2])
        elif k == 'box':
            mk.box(list(call[1]), width=call[2], height=call[3])
        else:
            raise ValueError(k)
    return mk


def gen_image(rng, wmax=8, hmax=6):
    w, h = rng.randint(1, wmax), rng.randint(1, hmax)
    p = rng.choice([0.2, 0.5, 0.8])
    px = [[rng.random() < p for _ in range(w)] for _ in range(h)]   # True = white
    return dict(px_to_mm=rng.choice([0.01, 0.04, 0.125]), speed=rng.choice([1.0, 2.0, 3.0]), speed_closed=rng.choice([5, 3.0]),
                z_init=rng.choice([None, 0.0, -0.01])), px


def build_raster(param, px):
    from femto.rasterimage import RasterImage
    from PIL import Image
    h, w = len(px), len(px[0])
    img = Image.new('1', (w, h))
    img.putdata([1 if v else 0 for row in px for v in row])
    with quiet():
        r = RasterImage(**param)
        r.image_to_path(img)
    return r
