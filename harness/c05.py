"""C05 - trench blocks keep their clearance from waveguides and are numbered bottom-up."""
from __future__ import annotations

import numpy as np
from shapely import geometry
from shapely.ops import unary_union

import common
import layouts
import pgm
from common import cq, cz, cb, cnat, clist, copt, frac

IMPORTS = 'From Femto Require Import Trench.Dig.'
ASSUMPTIONS = [
    'GEOS buffer / difference / simplify are oracles: the raw blocks are recomputed by the harness with the same shapely calls and '
    'handed to the list model; clearance, containment, disjointness and coverage are measured with shapely (1% slack for '
    'polygonal arcs, 1e-6 mm absolute)',
]


def rect_of(col):
    """the column rectangle from the column's *current* public fields (not through col.rect)"""
    return geometry.box(col.x_center - col.length / 2, col.y_min, col.x_center + col.length / 2, col.y_max)


def raw_blocks(col, coords_list):
    """the same shapely calls as TrenchColumn._dig, up to the MultiPolygon of raw blocks"""
    blocks = rect_of(col)
    for coords in coords_list:
        # the adjusted bridge from the column's current fields (not through col.adj_bridge)
        blocks = blocks.difference(geometry.LineString(coords).buffer(col.bridge / 2 + col.beam_waist + col.round_corner, cap_style=1))
    return blocks


def final_of(col, block):
    from femto.helpers import normalize_polygon
    b = block.buffer(col.round_corner, resolution=256, cap_style=1).simplify(tolerance=5e-7, preserve_topology=True)
    return normalize_polygon(b)


def run_case(rng, utrench=False):
    from femto.helpers import almost_equal
    wgs, descr = layouts.gen_layout(rng)
    col, kw = layouts.gen_column(rng, descr, utrench)
    moved = None
    if rng.random() < 0.25:
        # the rectangle's fields are public attributes: the column is first placed where no waveguide passes (the dig finds
        # nothing and adds no block), then moved / resized to its final place and dug again
        moved = {'x_center': kw['x_center'] + rng.choice([60.0, -45.0]), 'y_max': kw['y_max'] + rng.choice([0.15, -0.03, 0.0]),
                 'length': rng.choice([0.5, 1.2, kw['length']])}
        if rng.random() < 0.5:
            # ... and the clearance parameters are changed as well
            moved.update(bridge=rng.choice([0.08, 0.014]), beam_waist=rng.choice([0.008, 0.001]), round_corner=rng.choice([0.025, 0.002]))
        final = {k: getattr(col, k) for k in moved}
        for k, v in moved.items():
            setattr(col, k, v)
        try:
            with pgm.quiet():
                col.dig_from_waveguide(wgs)
        except Exception:
            pass
        assert not col._trench_list, 'the first placement was meant to find nothing'
        _ = col.rect
        for k, v in final.items():
            setattr(col, k, v)
    coords_list = []
    for wg in wgs:
        x, y = wg.path
        coords_list.append(list(zip(x, y)))
    rb = raw_blocks(col, coords_list)
    raws = list(getattr(rb, 'geoms', [rb])) if not rb.is_empty else []
    nothing = almost_equal(rb, rect_of(col), tol=1e-8)
    nblk = 0 if nothing else len(raws)
    k = rng.random()
    if k < 0.4 or nblk == 0:
        remove = None if rng.random() < 0.5 else []
    elif k < 0.8:
        remove = rng.sample(range(nblk), rng.randint(1, nblk))
    elif k < 0.9:
        remove = [rng.randrange(nblk)] * 2 + ([rng.randrange(nblk)] if rng.random() < 0.5 else [])
    else:
        remove = [rng.choice([nblk, nblk + 3, -1, -nblk - 1])]
    raised = None
    try:
        with pgm.quiet():
            col.dig_from_waveguide(wgs, remove=remove)
    except IndexError:
        raised = 'IndexError'
    except Exception as e:
        raised = type(e).__name__
    finals = {final_of(col, b).wkb: i for i, b in enumerate(raws)} if not nothing else {}
    kept = None if raised == 'IndexError' else [finals.get(t.block.wkb, 999) for t in col._trench_list]
    # measurements on the blocks femto kept (plus the raw layout)
    wl = [geometry.LineString(c) for c in coords_list if len(c) >= 2]
    need = (col.bridge / 2 + col.beam_waist) * 0.99 - 1e-6
    grown = geometry.box(col.x_center - col.length / 2 - col.round_corner - 1e-6, col.y_min - col.round_corner - 1e-6,
                         col.x_center + col.length / 2 + col.round_corner + 1e-6, col.y_max + col.round_corner + 1e-6)
    clear_ok = inside_ok = disjoint_ok = cover_ok = True
    min_clear = None
    if raised is None:
        blocks = [t.block for t in col._trench_list]
        for b in blocks:
            for w in wl:
                dist = b.distance(w)
                min_clear = dist if min_clear is None else min(min_clear, dist)
                clear_ok &= dist >= need
            inside_ok &= grown.contains(b)
        for i in range(len(blocks)):
            for j in range(i + 1, len(blocks)):
                disjoint_ok &= blocks[i].intersection(blocks[j]).area <= 1e-12
        if not nothing and not remove:
            far = rect_of(col)
            for w in wl:
                far = far.difference(w.buffer((col.bridge / 2 + col.beam_waist + col.round_corner) * 1.01 + 1e-6))
            unc = far.difference(unary_union(blocks)) if blocks else far
            # slivers thinner than 2e-6 mm (float32 coordinates of the blocks against the float64 rectangle) are not area
            cover_ok = unc.area <= 1e-9 or unc.buffer(-1e-6).area <= 1e-12
    lit = ('{| k_blocks := %s; k_remove := %s; k_kept := %s; k_clear_ok := %s; k_inside_ok := %s; k_disjoint_ok := %s; k_cover_ok := %s |}' % (
        clist('(%s, %s)' % (cq(frac(b.bounds[1])), cnat(i)) for i, b in enumerate(raws)) if not nothing else '[]',
        clist(cz(i) for i in (remove or [])),
        copt(None if kept is None else clist(cnat(i) for i in kept)),
        cb(clear_ok), cb(inside_ok), cb(disjoint_ok), cb(cover_ok)))
    d = dict(layout={k: v for k, v in descr.items() if k != 'calls'}, calls=descr['calls'], column=kw, first_dug_as=moved, remove=remove, blocks=nblk,
             raised=raised, min_clearance=min_clear, needed=need, first_vertex_y=[float(np.float32(b.exterior.coords[0][1])) for b in raws],
             lowest_y=[b.bounds[1] for b in raws])
    return lit, d


def run(rep: common.Report, tier: str, seed: int):
    rng = common.rng_for(seed, 'C05', 'main')
    quick = tier == 'quick'
    cases, lits = [], []
    hist = {'blocks': {}, 'kinds': {}, 'raised': {}, 'min_clearance_margin': None, 'order_differs_from_first_vertex': 0}
    for _ in range(120 if quick else 2500):
        lit, d = run_case(rng, utrench=rng.random() < 0.2)
        if d['raised'] not in (None, 'IndexError'):
            rep.violation(f'C05/raises/{d["raised"]}/{"one-block" if d["blocks"] == 1 else str(d["blocks"]) + "-blocks"}',
                          f'dig raised {d["raised"]} for a layout leaving {d["blocks"]} block(s)', {'input': d})
            hist['raised'][d['raised']] = hist['raised'].get(d['raised'], 0) + 1
            continue
        cases.append(d)
        lits.append(lit)
        hist['blocks'][d['blocks']] = hist['blocks'].get(d['blocks'], 0) + 1
        hist['kinds'][d['layout']['kind']] = hist['kinds'].get(d['layout']['kind'], 0) + 1
        if d['min_clearance'] is not None:
            m = d['min_clearance'] - d['needed']
            hist['min_clearance_margin'] = m if hist['min_clearance_margin'] is None else min(hist['min_clearance_margin'], m)
        fv = d['first_vertex_y']
        hist['order_differs_from_first_vertex'] += sorted(range(len(fv)), key=lambda i: fv[i]) != sorted(range(len(fv)), key=lambda i: d['lowest_y'][i])
    fails = common.run_model('C05', 'Harness.C05', 'C05.case', 'C05.failing', lits, shard=60, extra_imports=IMPORTS)
    names = ['numbering-or-removal', 'clearance', 'outside-grown-rectangle', 'blocks-overlap', 'rectangle-not-covered']
    for idx, code in fails:
        which = [names[k] for k in range(5) if code >> k & 1]
        c = cases[idx]
        key = 'C05/' + '+'.join(which)
        if which == ['numbering-or-removal']:
            dup = c['remove'] is not None and len(set(c['remove'])) < len(c['remove'])
            key += '/duplicate-indices' if dup else ('/order' if not c['remove'] else '/removal')
        rep.violation(key, 'trench blocks: ' + '+'.join(which), {'input': c, 'failed': which})
    seen, nt, one = set(), 0, 0
    for c in cases:
        h = common.digest(c)
        if h not in seen:
            seen.add(h)
            nt += c['blocks'] >= 2
            one += c['blocks'] == 1
    rep.coverage.update({
        'evaluations': len(cases) + sum(hist['raised'].values()), 'distinct_nontrivial': nt, 'one_block_layouts': one,
        'rule': 'case = (waveguide layout, column parameters, removal list); non-trivial: >= 2 blocks (one-block layouts counted separately)',
        'samples': [{k: v for k, v in c.items() if k != 'calls'} for c in cases[:2]], 'traces_validated_against_impl': len(cases),
        'disagreements_checked': len(fails), 'distribution': hist,
    })


def replay(data):
    return common.replay_by_rerun('C05', data, run)
