"""C02 - coordinates are mapped by the documented rigid transformation (transform_points and its call sites)."""
from __future__ import annotations

import math
import re
from fractions import Fraction

import numpy as np

import builders
import common
import pgm
from common import cq, cb, clist, frac

IMPORTS = 'From Femto Require Import Base.Num Geo.Rigid.'
ASSUMPTIONS = [
    'cos / sin of the rotation are computed by the harness with Python math from radians(angle mod 360) - the documented '
    'formula - and handed to the exact model; libm is trusted for their values',
    'float64 arithmetic of numpy matmul is covered by a 1e-12 relative tolerance; printed call sites by half a last digit',
]

ANGLES = [0, 0.0, 0.5, -0.5, 90, 180, 270, 361, -1234.5, 0.001, 45, 360, -360, 33.3, 720.25, None, 1e-9, 89.999]


def gen_tcfg(rng):
    d = {}
    d['rotation_angle'] = rng.choice(ANGLES) if rng.random() < 0.8 else rng.uniform(-800, 800)
    d['shift_origin'] = rng.choice(pgm.SHIFTS) if rng.random() < 0.7 else (rng.uniform(-5, 5), rng.uniform(-5, 5))
    d['flip_x'] = rng.random() < 0.4
    d['flip_y'] = rng.random() < 0.4
    d['n_glass'], d['n_environment'] = rng.choice(pgm.INDICES) if rng.random() < 0.8 else (rng.uniform(1.0, 2.5), rng.uniform(1.0, 1.6))
    if rng.random() < 0.35:
        # the same settings in another legitimate form: numpy booleans / 0-1 integers for the flags, a list or an array for
        # the origin, numpy scalars or integers for the numbers
        form = rng.choice([np.bool_, int])
        d['flip_x'], d['flip_y'] = form(d['flip_x']), form(d['flip_y'])
        d['shift_origin'] = rng.choice([list, np.array, tuple])(d['shift_origin'])
        a = d['rotation_angle']
        if a is not None:
            d['rotation_angle'] = rng.choice([np.float64, float] + ([int, np.int64] if float(a).is_integer() else []))(a)
        d['n_glass'], d['n_environment'] = np.float64(d['n_glass']), rng.choice([float, np.float64])(d['n_environment'])
    return d


def tc_lit(d):
    a = d.get('rotation_angle') or 0.0
    th = math.radians(a % 360) if a else 0.0
    c, s = math.cos(th), math.sin(th)
    k = Fraction(d['n_environment']) / Fraction(d['n_glass'])
    sx, sy = (float(v) for v in d['shift_origin'])
    return ('{| t_sx := %s; t_sy := %s; t_fx := %s; t_fy := %s; t_c := %s; t_s := %s; t_k := %s |}' % (
        cq(frac(sx)), cq(frac(sy)), cb(bool(d['flip_x'])), cb(bool(d['flip_y'])), cq(frac(c)), cq(frac(s)), cq(k)))


def pts_lit(pts):
    return clist('(%s, %s, %s)' % (cq(frac(x)), cq(frac(y)), cq(frac(z))) for x, y, z in pts)


def gen_points(rng, n):
    mode = rng.random()
    pts = []
    for _ in range(n):
        if mode < 0.5:
            p = [rng.choice([0.0, 0.125, -2.0, 1.5, 25.0, 0.035, -0.7]) for _ in range(3)]
        elif mode < 0.9:
            p = [rng.uniform(-30, 30), rng.uniform(-30, 30), rng.uniform(-1, 1)]
        else:
            p = [rng.choice([1e-8, 3e4, -7e3, 1e-30]) for _ in range(3)]
        pts.append(p)
    return pts


def run(rep: common.Report, tier: str, seed: int):
    from femto.writer import TrenchWriter
    rng = common.rng_for(seed, 'C02', 'main')
    quick = tier == 'quick'
    cases, lits = [], []
    hist = {'site': {}, 'shape': {}}

    def add(site, d, pts, out, tol, extra=None):
        cases.append(dict(site=site, cfg=d, pts=[list(map(float, p)) for p in pts][:6], n=len(pts), **(extra or {})))
        lits.append('{| k_tc := %s; k_pts := %s; k_out := %s; k_scalar := %s; k_tol := %s |}' % (
            tc_lit(d), pts_lit(pts), pts_lit(out), cb((extra or {}).get('shape') == 'scalar'), cq(Fraction(tol))))
        hist['site'][site] = hist['site'].get(site, 0) + 1

    for _ in range(200 if quick else 3000):
        d = gen_tcfg(rng)
        with pgm.quiet():
            G = pgm.make_compiler(d)
        if rng.random() < 0.3:
            # the settings are public attributes: a compiler built with other settings, used once, then re-set to d
            import math
            d0 = gen_tcfg(rng)
            with pgm.quiet():
                G = pgm.make_compiler(d0)
            _ = (G.transform_points(np.float32(0.5), np.float32(-0.25), np.float32(0.1)), G.t_matrix, G.neff)
            G.shift_origin, G.flip_x, G.flip_y = d['shift_origin'], d['flip_x'], d['flip_y']
            G.n_glass, G.n_environment = d['n_glass'], d['n_environment']
            G.rotation_angle = math.radians(d['rotation_angle'] % 360) if d['rotation_angle'] else 0.0
            hist['site']['re-set compiler'] = hist['site'].get('re-set compiler', 0) + 1
        shape = rng.choice(['scalar', 'one', 'n', 'n', 'float64'])
        hist['shape'][shape] = hist['shape'].get(shape, 0) + 1
        if shape == 'scalar':
            p = gen_points(rng, 1)[0]
            p32 = [float(np.float32(v)) for v in p]
            out = G.transform_points(p[0], p[1], p[2])
            add('transform_points', d, [p], [tuple(float(v) for v in out)], Fraction(1, 10 ** 13), {'shape': shape})
        else:
            n = 1 if shape == 'one' else rng.randint(2, 25)
            pts = gen_points(rng, n)
            dt = np.float64 if shape == 'float64' else np.float32
            arr = np.array(pts, dtype=dt)
            x, y, z = arr[:, 0].copy(), arr[:, 1].copy(), arr[:, 2].copy()
            out = G.transform_points(x, y, z)
            add('transform_points', d, [tuple(float(v) for v in r) for r in arr], [tuple(float(v) for v in r) for r in np.asarray(out).T],
                Fraction(1, 10 ** 13), {'shape': shape})

    # call site: wall / floor files written by export_array2d (z is not printed: compared as 0)
    for _ in range(60 if quick else 600):
        d = gen_tcfg(rng)
        dg = rng.choice([6, 4, 9])
        n = rng.randint(1, 12)
        pts = gen_points(rng, n)
        arr = np.array(pts, dtype=np.float32)
        with pgm.quiet():
            W = TrenchWriter([], filename='t.pgm', output_digits=dg, **d)
            W.export_array2d('wall.pgm', arr[:, 0].copy(), arr[:, 1].copy(), speed=4.0)
        out = []
        for line in open('wall.pgm').read().splitlines():
            m = re.match(r'^G1 X(\S+) Y(\S+)', line)
            out.append((float(Fraction(m.group(1))), float(Fraction(m.group(2))), 0.0))
        k = float(Fraction(d['n_environment']) / Fraction(d['n_glass']))
        add('export_array2d', d, [(float(r[0]), float(r[1]), 0.0) for r in arr], out, Fraction(6, 10 ** (dg + 1)))

    # call site: the traces drawn by plot2d
    for _ in range(30 if quick else 300):
        from femto.device import Device
        d = gen_tcfg(rng)
        param, calls = builders.gen_wg_calls(rng, max_ops=2)
        param['cmd_rate_max'] = 20
        wg = builders.build_wg(param, calls)
        with pgm.quiet():
            dev = Device(filename='d.pgm', **d)
            dev.append(wg)
            dev.plot2d(show=False)
        xs, ys = [], []
        for tr in dev.fig.data[:-1]:           # the last trace is the origin marker
            if tr.x is not None and len(tr.x) and tr.mode == 'lines':
                xs.extend(float(v) for v in tr.x)
                ys.extend(float(v) for v in tr.y)
        # the drawn points are the transformed points of the path, split in open / closed runs: compare as sets of pairs
        pts = [tuple(float(v) for v in r[:3]) for r in wg.points.T]
        with pgm.quiet():
            ref = pgm.make_compiler(d).transform_points(wg.points[0].copy(), wg.points[1].copy(), wg.points[2].copy())
        drawn = sorted(set(zip(xs, ys)))
        # every drawn point must be the image of a path point under the model: ship the path and, per path point, the drawn
        # point closest to femto's own transform of it (fail-closed: if a point was not drawn the pairing breaks)
        refpts = [tuple(float(v) for v in r) for r in np.asarray(ref).T]
        import bisect
        out = []
        ok = True
        for (rx, ry, rz) in refpts:
            best = min(drawn, key=lambda q: (q[0] - rx) ** 2 + (q[1] - ry) ** 2) if drawn else (float('nan'), float('nan'))
            out.append((best[0], best[1], rz))
        add('plot2d', d, pts, out, Fraction(1, 10 ** 9))

    # call site: the traces NasuWriter draws (plot2d / plot3d) - every adjacent pass is the path displaced by a multiple of the
    # scan shift *before* the transformation, so the displacement is mirrored / rotated / scaled with the path
    for k in range(24 if quick else 240):
        from femto.device import Device
        from femto.waveguide import NasuWaveguide
        d = gen_tcfg(rng)
        param, calls = builders.gen_wg_calls(rng, max_ops=2)
        param['cmd_rate_max'] = 20
        param['adj_scan'] = rng.choice([2, 3, 4, 5])
        param['adj_scan_shift'] = rng.choice([(0.0, 0.2, 0.0), (0.15, 0.1, 0.0), (0.1, -0.2, 0.05), (0.0, 0.0004, 0.0)])
        nwg = builders.build_wg(param, calls, cls=NasuWaveguide)
        three_d = k % 2 == 1
        with pgm.quiet():
            dev = Device(filename='d.pgm', **d)
            dev.append(nwg)
            (dev.plot3d if three_d else dev.plot2d)(show=False)
        drawn = []
        for tr in dev.fig.data:
            if tr.x is not None and len(tr.x) and tr.mode == 'lines':
                zs = tr.z if three_d else [0.0] * len(tr.x)
                drawn.extend((float(a), float(b), float(c)) for a, b, c in zip(tr.x, tr.y, zs))
        drawn = sorted(set(drawn))
        P = np.asarray(nwg.points, dtype=np.float64)
        sh = np.array(list(param['adj_scan_shift']) + [0.0, 0.0], dtype=np.float64).reshape(-1, 1)
        pts, out = [], []
        with pgm.quiet():
            G0 = pgm.make_compiler(d)
        for m in nwg.adj_scan_order:
            Q = P + m * sh
            ref = np.asarray(G0.transform_points(Q[0].copy(), Q[1].copy(), Q[2].copy())).T
            for q, (rx, ry, rz) in zip(Q.T, ref):
                best = min(drawn, key=lambda t: (t[0] - rx) ** 2 + (t[1] - ry) ** 2 + ((t[2] - rz) ** 2 if three_d else 0.0)) if drawn \
                    else (float('nan'),) * 3
                pts.append((float(q[0]), float(q[1]), float(q[2])))
                out.append((best[0], best[1], best[2] if three_d else float(rz)))
        add('nasu_plot3d' if three_d else 'nasu_plot2d', d, pts, out, Fraction(1, 10 ** 9), {'shape': 'float64'})

    fails = common.run_model('C02', 'Harness.C02', 'C02.case', 'C02.failing', lits, shard=60, extra_imports=IMPORTS)
    for idx, code in fails:
        c = cases[idx]
        rep.violation('C02/' + c['site'], f'{c["site"]}: coordinates differ from translate-flip-rotate-scale', {'input': c})
    seen, nt = set(), 0
    for c in cases:
        h = common.digest(c)
        if h in seen:
            continue
        seen.add(h)
        d = c['cfg']
        nt += int(sum([tuple(float(v) for v in d['shift_origin']) != (0.0, 0.0), bool(d['flip_x']), bool(d['flip_y']), bool(d['rotation_angle']), d['n_glass'] != d['n_environment']]) >= 2)
    rep.coverage.update({
        'evaluations': len(cases), 'distinct_nontrivial': nt,
        'rule': 'case = (shift, flips, angle, indices, points) at a call site (transform_points scalar/1/n/float64, export_array2d '
                'files, plot2d traces); non-trivial: configuration differs from neutral in >= 2 respects',
        'samples': cases[:2] + cases[-1:], 'traces_validated_against_impl': len(cases), 'disagreements_checked': len(fails),
        'distribution': hist,
    })


def replay(data):
    return common.replay_by_rerun('C02', data, run)
