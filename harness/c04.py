"""C04 - waveguide segments chain continuously and land on the documented point."""
from __future__ import annotations

import numpy as np

np.seterr(all='ignore')

import common
import pgm
from common import cq, cb, cz, clist, copt, frac

IMPORTS = 'From Femto Require Import Path.Laser.'
ASSUMPTIONS = [
    'cos / sin / arccos are numpy\'s and BPoly is scipy\'s: the checker evaluates rational relations (squared S-bend length, '
    'circle membership, end displacements) on femto\'s float32 points within 5e-6*(1+|v|)',
    'interior points of sinusoidal and spline curves are not characterised (only start, end, and the bridge peak via theorem)',
]


def lpt(x, y, z, f, s):
    return '{| lx := %s; ly := %s; lz := %s; lf := %s; ls := %s |}' % (cq(frac(x)), cq(frac(y)), cq(frac(z)), cq(frac(f)), cb(s != 0))


def oq(v):
    return copt(None if v is None else cq(frac(v)))


def gen_seq(rng):
    param = dict(scan=1, speed=rng.choice([5.0, 20.0, 7.5]), radius=rng.choice([15.0, 25.0, 40.0, 5.0]), pitch=0.08,
                 int_dist=rng.choice([0.007, 0.01]), int_length=rng.choice([0.0, 0.5, -0.25]), arm_length=rng.choice([0.0, 0.75, -1.0]),
                 dz_bridge=rng.choice([0.007, -0.01]), cmd_rate_max=rng.choice([40, 100, 250]), speed_closed=rng.choice([5, 10.0]),
                 speed_pos=rng.choice([0.5, 3.0]), samplesize=(25, 10))
    if rng.random() < 0.25:
        param['warp_flag'] = True      # straight segments are subdivided (the compensation itself is the compiler's, C17)
    calls = [('start', [rng.choice([-2.0, 0.0, 0.125]), rng.choice([0.0, 0.25, -1.5]), rng.choice([0.035, 0.0, -0.1])])]
    for _ in range(rng.randint(1, 6)):
        if rng.random() < 0.15:
            # the defaults are public attributes: they may be re-assigned between two segments of one waveguide
            attr = rng.choice(['radius', 'radius', 'speed', 'int_length', 'arm_length', 'dz_bridge'])
            val = {'radius': [15.0, 30.0, 7.5], 'speed': [5.0, 12.5], 'int_length': [0.0, 0.25], 'arm_length': [0.0, 0.5],
                   'dz_bridge': [0.007, -0.004]}[attr]
            calls.append(('set', attr, rng.choice(val)))
        dy = rng.choice([0.03, -0.03, 0.0365, -0.0365, 0.1, -0.2, 0.0, 1.5]) if rng.random() < 0.7 else rng.choice([0.03, -0.03])
        r = rng.choice([None, None, 20.0, 3.0])
        if dy and rng.random() < 0.15:
            r = abs(dy) / 3            # a steep bend: 2 r < |dy| <= 4 r, each arc sweeps more than a quarter turn
        f = rng.choice([None, None, 10.0, 33.0])
        s = rng.choice([1, 1, 1, 0])
        il = rng.choice([None, 0.3, -0.4, 0.0])     # an explicit 0 is a value, not a missing argument
        k = rng.random()
        if k < 0.22:
            inc = [rng.choice([0.0, 0.5, 1.0, -0.25, None]), rng.choice([0.0, 0.125, None, -0.3]), rng.choice([0.0, 0.01, None])]
            calls.append(('linear', inc, rng.choice(['INC', 'ABS', 'inc', 'abs']), s, f))
        elif k < 0.36:
            calls.append(('arc_bend', dy, r, s, f))
        elif k < 0.44:
            calls.append(('arc_coupler', dy, r, il, s, f))
        elif k < 0.50:
            calls.append(('arc_mzi', dy, r, il, rng.choice([None, 0.6, 0.0]), s, f))
        elif k < 0.62:
            which = rng.choice(['sin_bridge', 'sin_bend', 'sin_comp'])
            calls.append((which, dy, rng.choice([None, 0.01, -0.02, 0.0]), rng.choice([None, None, 1.5]), r, s, f))
        elif k < 0.70:
            calls.append(('sin_coupler', dy, r, il, s, f))
        elif k < 0.76:
            calls.append(('sin_mzi', dy, r, il, rng.choice([None, 0.6, 0.0]), s, f))
        elif k < 0.88:
            calls.append(('spline', dy, rng.choice([0.0, 0.02, -0.01]), rng.choice([None, 1.5]), r, s, f))
        else:
            calls.append(('spline_bridge', dy, rng.choice([0.02, -0.01]), rng.choice([None, 1.5]), r, s, f))
    calls.append(('end',))
    return param, calls


def directed_seqs(rng):
    """the same segment before and after a default was re-assigned (a value remembered from the first call must not leak)"""
    base = dict(scan=1, speed=20.0, radius=15.0, pitch=0.08, int_dist=0.007, int_length=0.5, arm_length=0.75, dz_bridge=0.007,
                cmd_rate_max=100, speed_closed=5, speed_pos=0.5, samplesize=(25, 10))
    segs = {
        'arc_bend': lambda dy: ('arc_bend', dy, None, 1, None),
        'arc_coupler': lambda dy: ('arc_coupler', dy, None, None, 1, None),
        'arc_mzi': lambda dy: ('arc_mzi', dy, None, None, None, 1, None),
        'sin_bend': lambda dy: ('sin_bend', dy, None, None, None, 1, None),
        'sin_bridge': lambda dy: ('sin_bridge', dy, None, None, None, 1, None),
        'sin_coupler': lambda dy: ('sin_coupler', dy, None, None, 1, None),
        'sin_mzi': lambda dy: ('sin_mzi', dy, None, None, None, 1, None),
        'spline': lambda dy: ('spline', dy, 0.0, None, None, 1, None),
    }
    sets = [('radius', 30.0), ('radius', 7.5), ('speed', 5.0), ('int_length', 0.0), ('arm_length', 0.0), ('dz_bridge', -0.004)]
    for name, mk in segs.items():
        for attr, val in sets:
            if rng.random() < 0.5:
                continue
            dy = rng.choice([0.03, -0.0365])
            yield dict(base), [('start', [0.0, 0.0, 0.035]), mk(dy), ('set', attr, val), mk(rng.choice([dy, -dy])), ('end',)]


def apply(wg, c):
    k = c[0]
    if k == 'start':
        wg.start(list(c[1]))
    elif k == 'set':
        setattr(wg, c[1], c[2])
    elif k == 'linear':
        wg.linear(list(c[1]), mode=c[2], shutter=c[3], speed=c[4])
    elif k == 'arc_bend':
        wg.arc_bend(c[1], radius=c[2], shutter=c[3], speed=c[4])
    elif k == 'arc_coupler':
        wg.arc_coupler(c[1], radius=c[2], int_length=c[3], shutter=c[4], speed=c[5])
    elif k == 'arc_mzi':
        wg.arc_mzi(c[1], radius=c[2], int_length=c[3], arm_length=c[4], shutter=c[5], speed=c[6])
    elif k == 'sin_bridge':
        wg.sin_bridge(c[1], dz=c[2], disp_x=c[3], radius=c[4], shutter=c[5], speed=c[6])
    elif k in ('sin_bend', 'sin_comp'):
        getattr(wg, k)(c[1], disp_x=c[3], radius=c[4], shutter=c[5], speed=c[6])
    elif k == 'sin_coupler':
        wg.sin_coupler(c[1], radius=c[2], int_length=c[3], shutter=c[4], speed=c[5])
    elif k == 'sin_mzi':
        wg.sin_mzi(c[1], radius=c[2], int_length=c[3], arm_length=c[4], shutter=c[5], speed=c[6])
    elif k == 'spline':
        wg.spline(c[1], dz=c[2], disp_x=c[3], radius=c[4], shutter=c[5], speed=c[6])
    elif k == 'spline_bridge':
        wg.spline_bridge(c[1], c[2], disp_x=c[3], radius=c[4], shutter=c[5], speed=c[6])
    elif k == 'end':
        wg.end()
    else:
        raise AssertionError(k)


def seg_lit(param, c):
    k = c[0]

    def rr(r):
        return cq(frac(param['radius'] if r is None else r))

    def ff(f):
        return cq(frac(param['speed'] if f is None else f))

    def ii(v):
        return cq(frac(param['int_length'] if v is None else v))

    def aa(v):
        return cq(frac(param['arm_length'] if v is None else v))
    if k == 'linear':
        return '(%s (%s, %s, %s) %s %s %s)' % ('GLinearW' if param.get('warp_flag') else 'GLinear', *(oq(v) for v in c[1]),
                                               cb(c[2].lower() == 'abs'), cb(c[3]), ff(c[4]))
    if k == 'arc_bend':
        return '(GArc %s %s %s %s)' % (cq(frac(c[1])), rr(c[2]), cb(c[3]), ff(c[4]))
    if k == 'arc_coupler':
        return '(GArcCoupler %s %s %s %s %s)' % (cq(frac(c[1])), rr(c[2]), ii(c[3]), cb(c[4]), ff(c[5]))
    if k == 'arc_mzi':
        return '(GArcMzi %s %s %s %s %s %s)' % (cq(frac(c[1])), rr(c[2]), ii(c[3]), aa(c[4]), cb(c[5]), ff(c[6]))
    if k in ('sin_bridge', 'sin_bend', 'sin_comp'):
        dz = (param['dz_bridge'] if c[2] is None else c[2]) if k == 'sin_bridge' else 0.0
        wy = 2 if k == 'sin_comp' else 1
        return '(GSin %s %s %s %s %s %s %s %s %s)' % (cq(frac(c[1])), cq(frac(dz)), cq(frac(c[3] or 0.0)), cb(c[3] is not None), rr(c[4]),
                                                    cz(wy), cz(2), cb(c[5]), ff(c[6]))
    if k == 'sin_coupler':
        return '(GSinCoupler %s %s %s %s %s)' % (cq(frac(c[1])), rr(c[2]), ii(c[3]), cb(c[4]), ff(c[5]))
    if k == 'sin_mzi':
        return '(GSinMzi %s %s %s %s %s %s)' % (cq(frac(c[1])), rr(c[2]), ii(c[3]), aa(c[4]), cb(c[5]), ff(c[6]))
    if k == 'spline':
        return '(GSpline %s %s %s %s %s %s %s)' % (cq(frac(c[1])), cq(frac(c[2])), cq(frac(c[3] or 0.0)), cb(c[3] is not None), rr(c[4]), cb(c[5]), ff(c[6]))
    if k == 'spline_bridge':
        return '(GSplineBridge %s %s %s %s %s %s %s)' % (cq(frac(c[1])), cq(frac(c[2])), cq(frac(c[3] or 0.0)), cb(c[3] is not None), rr(c[4]), cb(c[5]), ff(c[6]))
    if k == 'end':
        return '(GEnd %s)' % cq(frac(param['speed_closed']))
    raise AssertionError(k)


def run(rep: common.Report, tier: str, seed: int):
    from femto.waveguide import Waveguide, coupler
    rng = common.rng_for(seed, 'C04', 'main')
    quick = tier == 'quick'
    cases, lits = [], []
    hist = {'ops': {}, 'rejected': {}, 'blocks': 0}
    nseq = 0
    seqs = list(directed_seqs(rng)) + [gen_seq(rng) for _ in range(150 if quick else 2500)]
    for param, calls in seqs:
        with pgm.quiet():
            wg = Waveguide(**param)
        nseq += 1
        curved = 0
        cur = dict(param)          # the attribute values in force (re-assigned by 'set')
        for c in calls:
            if c[0] == 'set':
                cur[c[1]] = c[2]
            n0 = wg._x.size
            try:
                with pgm.quiet():
                    apply(wg, c)
            except ValueError as e:
                # |dy| > 4r (arccos undefined) and similar documented rejections: nothing may have been appended
                hist['rejected'][c[0]] = hist['rejected'].get(c[0], 0) + 1
                continue
            if c[0] in ('start', 'set'):
                continue
            blk = [(wg._x[i], wg._y[i], wg._z[i], wg._f[i], wg._s[i]) for i in range(n0, wg._x.size)]
            if len(blk) > 1200:
                continue
            first = (wg._x[0], wg._y[0], wg._z[0], wg._f[0], wg._s[0])
            last = (wg._x[n0 - 1], wg._y[n0 - 1], wg._z[n0 - 1], wg._f[n0 - 1], wg._s[n0 - 1])
            lits.append('{| k_first := %s; k_last := %s; k_seg := %s; k_blk := %s |}' % (
                lpt(*first), lpt(*last), seg_lit(cur, c), clist(lpt(*p) for p in blk)))
            cases.append({'param': param, 'prefix': calls[:calls.index(c)], 'call': c})
            hist['ops'][c[0]] = hist['ops'].get(c[0], 0) + 1
            curved += c[0] not in ('linear', 'end')
    # the coupler helper: two arms, interaction distance at the centre, one pitch apart at both ends
    helper_fail = []
    for _ in range(20 if quick else 200):
        p = dict(speed=20, radius=rng.choice([15, 25]), pitch=rng.choice([0.08, 0.127]), int_dist=rng.choice([0.007, 0.01]),
                 int_length=rng.choice([0.0, 0.5]), samplesize=(rng.choice([25, 50]), 3), cmd_rate_max=200,
                 shrink_correction_factor=rng.choice([1.0, 1.0, 0.9993, 1.0015]))
        nasu = rng.random() < 0.25
        with pgm.quiet():
            a, b = coupler(dict(p), nasu=nasu)
            pitch = Waveguide(**p).pitch        # the pitch as a waveguide built from these parameters has it (shrink-corrected)
        xa, ya, _ = a.path3d
        xb, yb, _ = b.path3d
        xc = p['samplesize'][0] / 2
        ia, ib = int(np.argmin(np.abs(xa - xc))), int(np.argmin(np.abs(xb - xc)))
        ok = abs((yb[ib] - ya[ia]) - p['int_dist']) < 1e-5 and abs((yb[0] - ya[0]) - pitch) < 1e-6 and \
            abs((yb[-1] - ya[-1]) - pitch) < 1e-5
        # the interaction segment of each arm is centred: its straight part spans symmetrically about samplesize_x / 2
        for xs, ys, i0 in ((xa, ya, ia), (xb, yb, ib)):
            flat = [x for x, y in zip(xs, ys) if abs(y - ys[i0]) < 1e-7]
            ok = ok and abs((min(flat) + max(flat)) / 2 - xc) < 1e-4
        p = dict(p, nasu=nasu)
        hist['ops']['coupler-helper'] = hist['ops'].get('coupler-helper', 0) + 1
        if not ok:
            helper_fail.append(p)
    for p in helper_fail:
        rep.violation('C04/coupler-helper', 'coupler(): arms are not int_dist apart at the centre / one pitch apart at the ends', {'input': p})
    fails = common.run_model('C04', 'Harness.C04', 'C04.case', 'C04.failing', lits, shard=60, extra_imports=IMPORTS)
    for idx, code in fails:
        c = cases[idx]
        rep.violation(f'C04/{c["call"][0]}/code{code}', f'{c["call"][0]}: block does not start at the path end / land on the documented point (bits {code:b})',
                      {'input': c, 'code': code})
    seen, nt = set(), 0
    for c in cases:
        h = common.digest(c)
        if h in seen:
            continue
        seen.add(h)
        nt += len(c['prefix']) >= 2 and c['call'][0] not in ('linear', 'end')
    rep.coverage.update({
        'evaluations': len(cases) + hist['ops'].get('coupler-helper', 0), 'distinct_nontrivial': nt,
        'rule': 'case = (parameters, call prefix, call) with the appended block; non-trivial: a curved segment after >= 1 other segment',
        'samples': cases[:1] + cases[-1:], 'traces_validated_against_impl': len(cases), 'disagreements_checked': len(fails),
        'distribution': hist, 'sequences': nseq,
    })


def replay(data):
    return common.replay_by_rerun('C04', data, run)
