"""Shared by C01/C03/C08/C12/C14: compiler configurations, Gallina rendering of cfg / points, running femto."""
from __future__ import annotations

import contextlib
import io
import math
import os
import pathlib
from fractions import Fraction

import numpy as np

import lexer
from common import cz, cn, cb, clist, copt, cq, frac

LASERS_OK = ['PHAROS', 'pharos', 'Carbide', 'ANT', 'ant', 'UWE', 'uwe']
LASERS_BAD = ['laser', '', None]
PAUSES = [None, 0, 0.0, -0.25, 0.5, 0.1, 0.05, 1e-05, 2]
ANGLES = [0, 0.0, 0.5, -0.5, 90, 180, 270, 361, -1234.5, 0.001, 45, 360, -360, 33.3]
SHIFTS = [(0.0, 0.0), (0.125, -0.25), (1.1, 2.3), (-3.0, 0.5), (0.0, 0.7)]
INDICES = [(1.5, 1.33), (1.5, 1.0), (1.0, 1.0), (1.4585, 1.0), (1.33, 1.5)]


def gen_cfg(rng, allow_bad_laser=True, simple=False) -> dict:
    if simple:
        return dict(laser='PHAROS')
    d = {}
    r = rng.random()
    d['laser'] = rng.choice(LASERS_BAD) if (allow_bad_laser and r < 0.04) else rng.choice(LASERS_OK)
    d['output_digits'] = rng.choice([6, 6, 6, 3, 4, 9, 0, 1, 2, 5, 7, 8])
    d['long_pause'] = rng.choice(PAUSES)
    d['short_pause'] = rng.choice(PAUSES)
    d['speed_pos'] = rng.choice([5.0, 0.5, 2, 50.0])
    d['home'] = rng.random() < 0.3
    d['aerotech_angle'] = rng.choice([0.0, 0.0, 0.0, None, 1.5, 360, -10, 720.5])
    d['rotation_angle'] = rng.choice(ANGLES) if rng.random() < 0.6 else 0.0
    d['shift_origin'] = rng.choice(SHIFTS) if rng.random() < 0.6 else (0.0, 0.0)
    d['flip_x'] = rng.random() < 0.3
    d['flip_y'] = rng.random() < 0.3
    d['n_glass'], d['n_environment'] = rng.choice(INDICES)
    return d


def pause_q(p):
    """the rational the DWELL token will carry: value of repr(np.fabs(p))"""
    if p is None:
        return None
    return Fraction(repr(float(p)))


def cfg_literal(cfgd: dict, tm) -> str:
    """Gallina record for Pgm.Ops.cfg from the constructor arguments and femto's own t_matrix."""
    laser = cfgd.get('laser', 'PHAROS')
    ok = laser is not None and laser.lower() in ('ant', 'carbide', 'pharos', 'uwe')
    lz = ok and laser.lower() == 'ant'
    aero = cfgd.get('aerotech_angle', 0.0)
    aero_on = bool(aero) and bool(aero % 360)
    sx, sy = cfgd.get('shift_origin', (0.0, 0.0))
    lp = cfgd.get('long_pause', 0.5)
    sp = cfgd.get('short_pause', 0.1)
    tc = ('{| t_sx := %s; t_sy := %s; t_fx := %s; t_fy := %s; t_c := %s; t_s := %s; t_k := %s |}' % (
        cq(frac(sx)), cq(frac(sy)), cb(cfgd.get('flip_x', False)), cb(cfgd.get('flip_y', False)),
        cq(frac(tm[0][0])), cq(frac(tm[0][1])), cq(frac(tm[2][2]))))
    return ('{| laser_ok := %s; laser_z := %s; digits := %s; long_p := %s; short_p := %s; speed_pos := %s; '
            'home := %s; aero := %s; tc := %s |}' % (
                cb(ok), cb(lz), cz(cfgd.get('output_digits', 6)),
                copt(None if lp is None else cq(pause_q(lp))), copt(None if sp is None else cq(pause_q(sp))),
                cq(frac(cfgd.get('speed_pos', 5.0))), cb(cfgd.get('home', False)), cb(aero_on), tc))


def pts_literal(mat) -> str:
    """mat: array of shape (5, n)."""
    mat = np.asarray(mat)
    out = []
    for x, y, z, f, s in mat.T:
        sc = 0 if s == 0 else (1 if s == 1 else 2)
        out.append('{| px := %s; py := %s; pz := %s; pf := %s; ps := %s |}' % (
            cq(frac(x)), cq(frac(y)), cq(frac(z)), cq(frac(f)), cz(sc)))
    return clist(out)


def make_compiler(cfgd: dict, filename='out.pgm'):
    from femto.pgmcompiler import PGMCompiler
    return PGMCompiler(filename=filename, **cfgd)


def t_matrix_of(cfgd: dict):
    G = make_compiler({k: v for k, v in cfgd.items() if k != 'laser'})
    return np.array(G.t_matrix, dtype=np.float64)


def quiet():
    return contextlib.redirect_stdout(io.StringIO())


EXC_KIND = {'ValueError': 1, 'FileNotFoundError': 2, 'UserBoom': 3, 'UserAbort': 3, 'TypeError': 4, 'IndexError': 5}


class UserBoom(Exception):
    pass


class UserAbort(BaseException):
    """user code interrupted by something that is not an Exception (like KeyboardInterrupt / SystemExit)"""


def read_file(path: str):
    p = pathlib.Path(path)
    if not p.exists():
        return None
    return p.read_text()
