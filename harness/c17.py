"""C17 - warp compensation follows the measured surface and only changes z."""
from __future__ import annotations

import math
import os
import pathlib
from fractions import Fraction

import numpy as np

import c02
import common
import pgm
from common import cq, cb, clist, frac

IMPORTS = 'From Femto Require Import Base.Num Geo.Rigid Geo.Warp.'
ASSUMPTIONS = [
    'scipy RBFInterpolator (cubic kernel) is an oracle: its values at the query points are handed to the model',
    'smoothness between samples is decided numerically: on regular grids the interpolant must stay within half the '
    'piecewise-linear error bound h^2 max|f\'\'|/8 of the smooth surface the samples were taken from',
    'cos/sin as in C02',
]


def surface(rng, Lx, Ly):
    amp = rng.choice([0.001, 0.01, 0.05])
    a, b, c = rng.uniform(-0.01, 0.01), rng.uniform(-1e-3, 1e-3), rng.uniform(-1e-3, 1e-3)
    kx, ky = rng.choice([0.5, 1.0]), rng.choice([0.5, 1.0])

    def f(x, y):
        return a + b * x + c * y + amp * np.sin(2 * np.pi * kx * x / Lx) * np.cos(np.pi * ky * y / Ly)
    m2x = amp * (2 * math.pi * kx / Lx) ** 2
    m2y = amp * (math.pi * ky / Ly) ** 2
    return f, m2x, m2y


def run(rep: common.Report, tier: str, seed: int):
    rng = common.rng_for(seed, 'C17', 'main')
    quick = tier == 'quick'
    cases, lits = [], []
    hist = {'layout': {}, 'samples': {}}
    base = pathlib.Path.cwd()
    for i in range(40 if quick else 400):
        # every other case re-uses the previous directory after removing fwarp.pkl - the documented way to refresh the
        # surface mapping: the new POS.txt must be the one that is followed
        if i % 2 == 1:
            wd = base / f'w{i - 1}'
            (wd / 'fwarp.pkl').unlink(missing_ok=True)
        else:
            wd = base / f'w{i}'
            wd.mkdir()
        os.chdir(wd)                       # no stale fwarp.pkl
        Lx, Ly = rng.choice([(25, 10), (100, 50), (4, 2)])
        f, m2x, m2y = surface(rng, Lx, Ly)
        regular = rng.random() < 0.6
        if regular:
            n = rng.choice([3, 5, 7, 9, 15])
            X, Y = np.meshgrid(np.linspace(0, Lx, n), np.linspace(0, Ly, n))
            px, py = X.ravel(), Y.ravel()
            hx, hy = Lx / (n - 1), Ly / (n - 1)
            layout = f'grid{n}x{n}'
        else:
            n = rng.choice([9, 30, 60, 200])
            px = np.array([rng.uniform(0, Lx) for _ in range(n)])
            py = np.array([rng.uniform(0, Ly) for _ in range(n)])
            layout = f'scattered{n}'
        pz = f(px, py)
        d = c02.gen_tcfg(rng)
        d['samplesize'] = (Lx, Ly)
        if i % 2 == 0 and rng.random() < 0.4:
            # a compiler asked for compensation before the surface was measured (fresh directory: no POS.txt yet); whatever
            # that attempt does, the mapping file written afterwards is the one to follow
            try:
                with pgm.quiet():
                    pgm.make_compiler(dict(d, warp_flag=True))
            except Exception:
                pass
            hist['layout']['early-attempt'] = hist['layout'].get('early-attempt', 0) + 1
        with open('POS.txt', 'w') as fh:
            for a, b, c in zip(px, py, pz):
                fh.write('%.6f %.6f %.6f\n' % (a, b, c))
        with pgm.quiet():
            Gon = pgm.make_compiler(dict(d, warp_flag=True))
            Goff = pgm.make_compiler(dict(d, warp_flag=False))
        m = rng.randint(3, 20)
        q = np.array([[rng.uniform(0.1 * Lx, 0.9 * Lx), rng.uniform(0.1 * Ly, 0.9 * Ly), rng.choice([0.0, 0.035, -0.1])] for _ in range(m)],
                     dtype=np.float32)
        x, y, z = q[:, 0].copy(), q[:, 1].copy(), q[:, 2].copy()
        xa, ya, za = x.copy(), y.copy(), z.copy()
        on = np.asarray(Gon.transform_points(xa, ya, za)).T
        if rng.random() < 0.5:
            # the same float32 arrays once more (a second pass over a matrix the caller keeps): same result
            on = np.asarray(Gon.transform_points(xa, ya, za)).T
        off = np.asarray(Goff.transform_points(x.copy(), y.copy(), z.copy())).T
        sv = np.asarray(Gon.fwarp(np.column_stack([x, y])), dtype=np.float64)
        # what the file holds (6 decimals, read as float32) and the interpolant there
        smp = np.loadtxt('POS.txt', dtype='f', delimiter=' ')
        ss = np.asarray(Gon.fwarp(smp[:, :2]), dtype=np.float64)
        k = min(len(smp), 40)
        idx = rng.sample(range(len(smp)), k)
        mids = []
        if regular and n >= 5:
            dev = 0.5 * (hx ** 2 * m2x + hy ** 2 * m2y) / 8 + 2e-6
            for _ in range(15):
                qx, qy = rng.uniform(0.15 * Lx, 0.85 * Lx), rng.uniform(0.15 * Ly, 0.85 * Ly)
                mids.append((float(f(qx, qy)), float(Gon.fwarp(np.array([[qx, qy]], dtype=np.float32))[0]), dev))
        os.chdir(base)

        def p3(arr):
            return clist('(%s, %s, %s)' % tuple(cq(frac(v)) for v in r) for r in arr)
        lits.append('{| k_tc := %s; k_pts := %s; k_s := %s; k_on := %s; k_off := %s; k_samples := %s; k_mid := %s |}' % (
            c02.tc_lit(d), p3(q), clist(cq(frac(v)) for v in sv), p3(on), p3(off),
            clist('(%s, %s)' % (cq(frac(smp[j, 2])), cq(frac(ss[j]))) for j in idx),
            clist('(%s, %s, %s)' % (cq(frac(a)), cq(frac(b)), cq(Fraction(c))) for a, b, c in mids)))
        cases.append({'layout': layout, 'samplesize': [Lx, Ly], 'cfg': d, 'queries': m})
        hist['layout'][layout] = hist['layout'].get(layout, 0) + 1
    fails = common.run_model('C17', 'Harness.C17', 'C17.case', 'C17.failing', lits, shard=10, extra_imports=IMPORTS)
    names = ['oracle-length', 'z-formula', 'xy-changed-by-compensation', 'flag-off', 'samples-not-reproduced', 'not-smooth-between-samples']
    for idx, code in fails:
        which = [names[k] for k in range(len(names)) if code >> k & 1]
        rep.violation('C17/' + '+'.join(which), 'warp compensation: ' + '+'.join(which), {'input': cases[idx], 'failed': which})
    nt = sum(1 for c in cases if sum([tuple(c['cfg']['shift_origin']) != (0.0, 0.0), c['cfg']['flip_x'], c['cfg']['flip_y'],
                                      bool(c['cfg']['rotation_angle'])]) >= 1)
    rep.coverage.update({
        'evaluations': len(cases), 'distinct_nontrivial': nt,
        'rule': 'case = (POS.txt on a regular grid 3x3..15x15 or 9..200 scattered samples of a non-planar surface, transformation '
                'settings, query points inside the sampled area); non-trivial: non-neutral transformation',
        'samples': cases[:2], 'traces_validated_against_impl': len(cases), 'disagreements_checked': len(fails), 'distribution': hist,
    })


def replay(data):
    return common.replay_by_rerun('C17', data, run)
