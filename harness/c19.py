"""C19 - saved objects and parameter files round-trip to where the caller said."""
from __future__ import annotations

import inspect
import os
import pathlib
import shutil

import numpy as np

import builders
import common
import pgm
from common import cn, cb, clist

IMPORTS = 'From Coq Require Import String.\nFrom Femto Require Import Persist.Paths.\nOpen Scope string_scope.'
ASSUMPTIONS = [
    'dill round trips are exercised (same parameters, same point matrix), not proved',
    'file names are generated in normalised POSIX form over [a-z0-9._-]; YAML parsing is PyYAML\'s',
    'parameter values are opaque to the model (interned); YAML section order is the mapping order PyYAML returns',
]

NAMES = ['x', 'x.pkl', 'wg.pickle', 'chip.v2', 'chip.v2.pkl', 'data.dat', '.hidden', 'a-b_c', 'p.yaml', 'p', 'p.yml', 'dev.pgm',
         'dev', 'dev.v2.pgm', 'dev.txt']
DIRS = ['', '', 'd', 'out/deep', 'a.b']


def cs(s: str) -> str:
    assert '"' not in s
    return '"%s"' % s


def clean():
    for p in pathlib.Path('.').iterdir():
        if p.is_dir():
            shutil.rmtree(p)
        else:
            p.unlink()


def files():
    return sorted(str(p) for p in pathlib.Path('.').rglob('*') if p.is_file())


def dict_lit(d, intern):
    return clist('(%s, %s)' % (cs(str(k)), cn(intern(v))) for k, v in d.items())


class ValIntern:
    def __init__(self):
        self.tab = {}

    def __call__(self, v):
        k = repr(v)
        if k not in self.tab:
            self.tab[k] = len(self.tab) + 1
        return self.tab[k]


def gen_path(rng, names=NAMES):
    d = rng.choice(DIRS)
    n = rng.choice(names)
    return (d + '/' + n) if d else n


def run(rep: common.Report, tier: str, seed: int):
    import dill
    import yaml
    from femto.helpers import load_parameters
    from femto.laserpath import LaserPath
    from femto.marker import Marker
    from femto.trench import TrenchColumn, UTrenchColumn
    from femto.waveguide import NasuWaveguide, Waveguide
    rng = common.rng_for(seed, 'C19', 'main')
    quick = tier == 'quick'
    cases, lits = [], []
    hist = {'kinds': {}}

    def add(kind, descr, lit):
        cases.append(dict(descr, kind=kind))
        lits.append(lit)
        hist['kinds'][kind] = hist['kinds'].get(kind, 0) + 1

    # ---- export / dill round trip
    for _ in range(60 if quick else 600):
        clean()
        fn = gen_path(rng, ['x', 'x.pkl', 'wg.pickle', 'chip.v2', 'chip.v2.pkl', 'data.dat', '.hidden', 'a-b_c'])
        d = os.path.dirname(fn)
        if d:
            os.makedirs(d)
        param, calls = builders.gen_wg_calls(rng, max_ops=2)
        param['cmd_rate_max'] = 20
        wg = builders.build_wg(param, calls)
        as_dict = rng.random() < 0.4
        with pgm.quiet():
            wg.export(fn, as_dict=as_dict)
        w = files()
        ok = False
        if len(w) == 1:
            with open(w[0], 'rb') as f:
                back = dill.load(f)
            if as_dict:
                ok = isinstance(back, dict) and all(np.array_equal(back[k], getattr(wg, k)) for k in ('_x', '_y', '_z', '_f', '_s')) \
                    and all(back[k] == getattr(wg, k) for k in param)
            else:
                ok = type(back) is type(wg) and np.array_equal(back.points, wg.points) and all(getattr(back, k) == getattr(wg, k) for k in param)
        add('export', {'filename': fn, 'as_dict': as_dict}, '(CExport %s %s %s)' % (cs(fn), clist(cs(x) for x in w), cb(ok)))

    # ---- load_parameters: which file is opened, DEFAULT merge
    keys = ['speed', 'scan', 'radius', 'depth', 'pitch', 'lx', 'filename', 'laser']
    for _ in range(80 if quick else 800):
        clean()
        fn = gen_path(rng, ['p.yaml', 'p', 'p.yml', 'conf.v2.yaml', 'test.yaml'])
        d = os.path.dirname(fn)
        if d:
            os.makedirs(d)
        doc = {}
        secs = rng.sample(['wg', 'mk', 'gc', 'tc', 'DEFAULT'], rng.randint(0, 4))
        if rng.random() < 0.5 and 'DEFAULT' not in secs:
            secs.insert(rng.randint(0, len(secs)), 'DEFAULT')
        for s in secs:
            doc[s] = {k: rng.choice([1, 2.5, 'a', True, 20]) for k in rng.sample(keys, rng.randint(1, 4))}
        opened = pathlib.Path(fn)
        if not opened.suffix:
            opened = opened.with_suffix('.yaml')      # where the document is placed: the path the caller names
        # decoys: the same name in the working directory and with a .yaml suffix must not be read instead
        decoys = {pathlib.PurePosixPath(fn).stem + '.yaml', pathlib.PurePosixPath(fn).name}
        for dn in decoys:
            if pathlib.Path(dn) != opened:
                with open(dn, 'w') as f:
                    yaml.dump({'decoy': {'speed': -1}}, f, sort_keys=False)
        with open(opened, 'w') as f:
            yaml.dump(doc, f, sort_keys=False)
        try:
            out = load_parameters(fn)
            which = str(opened) if (out != [{'speed': -1}]) else 'DECOY'
        except FileNotFoundError:
            out, which = None, 'NOTFOUND'
        vi = ValIntern()
        add('yaml-path', {'filename': fn}, '(CYaml %s %s)' % (cs(fn), cs(which)))
        if out is not None and which != 'DECOY':
            doc_lit = clist('(%s, %s)' % (cs(s), dict_lit(dd, vi)) for s, dd in doc.items())
            add('yaml-merge', {'doc': doc}, '(CDoc %s %s)' % (doc_lit, clist(dict_lit(o, vi) for o in out)))

    # ---- from_dict: exactly the constructor parameters
    for _ in range(60 if quick else 600):
        cls = rng.choice([LaserPath, Waveguide, NasuWaveguide, Marker, TrenchColumn, UTrenchColumn])
        sig = [k for k in inspect.signature(cls).parameters]
        d = {}
        for k in rng.sample(sig, min(len(sig), rng.randint(0, 4))):
            if k.startswith('_') or k in ('name', 'samplesize', 'u', 'adj_scan_shift', 'trenchbed', 'z_init'):
                continue
            d[k] = rng.choice([1, 2, 3])
        for k in ('x_center', 'y_min', 'y_max'):
            if k in sig:
                d[k] = rng.choice([1, 2])
        extra = {k: rng.choice([7, 'zz']) for k in rng.sample(['foo', 'bar', 'laser', 'filename', 'speedd', 'Speed'], rng.randint(0, 3))}
        dd = {**d, **extra}
        items = list(dd.items())
        rng.shuffle(items)
        dd = dict(items)
        with pgm.quiet():
            obj = cls.from_dict(dd)
            ref = cls(**{k: v for k, v in dd.items() if k in sig})     # built from exactly the constructor parameters
        # (an attribute may legitimately differ from the given value: __post_init__ rescales e.g. pitch_fa)
        same = set(vars(obj)) == set(vars(ref)) and all(same_value(vars(obj)[k], vars(ref)[k]) for k in vars(ref))
        used = {k: v for k, v in dd.items() if k in sig} if same else {'!!': 0}
        unexpected = [k for k in extra if k not in sig and hasattr(obj, k)]
        vi = ValIntern()
        add('from_dict', {'cls': cls.__name__, 'dict': dd},
            '(CFilter %s %s %s)' % (clist(cs(k) for k in sig), dict_lit(dd, vi), dict_lit(used if not unexpected else {'!': 0}, vi)))

    # ---- PGMCompiler.close: export_dir/<name>.pgm, creating missing directories
    for _ in range(60 if quick else 600):
        clean()
        fn = rng.choice(['dev.pgm', 'dev', 'dev.v2.pgm', 'dev.txt', 'a-b'])
        ed = rng.choice(['', 'out', 'out/deep/er', 'x.y'])
        if rng.random() < 0.3 and ed:
            os.makedirs(ed)
        with pgm.quiet():
            G = pgm.make_compiler(dict(laser='PHAROS', export_dir=ed), fn)
            G.comment('x')
            alt = rng.choice([None, None, 'other.pgm', 'other'])
            try:
                G.close(alt)
                w = files()
            except Exception as e:
                w = ['RAISED ' + type(e).__name__]
        add('close', {'filename': fn, 'export_dir': ed, 'close_arg': alt},
            '(CClose %s %s %s)' % (cs(ed), cs(alt if alt is not None else fn), clist(cs(x) for x in w)))
    clean()

    fails = common.run_model('C19', 'Harness.C19', 'C19.case', 'C19.failing', lits, shard=200, extra_imports=IMPORTS)
    for idx, code in fails:
        c = cases[idx]
        sig = c['kind']
        if c['kind'] == 'export':
            p = pathlib.PurePosixPath(c['filename'])
            sig += '/' + ('directory-dropped' if str(p.parent) != '.' else 'suffix') if code & 1 else '/round-trip'
        if c['kind'] == 'yaml-path':
            sig += '/' + ('directory-dropped' if '/' in c['filename'] else 'suffix')
        rep.violation('C19/' + sig, f'{c["kind"]}: target / content differs from the path-and-dictionary model', {'input': c, 'code': code})
    seen, nt = set(), 0
    for c in cases:
        h = common.digest(c)
        if h in seen:
            continue
        seen.add(h)
        if c['kind'] in ('export', 'yaml-path'):
            nt += '/' in c['filename']
        elif c['kind'] == 'yaml-merge':
            nt += 'DEFAULT' in c['doc'] and any(set(v) & set(c['doc']['DEFAULT']) for k, v in c['doc'].items() if k != 'DEFAULT')
        elif c['kind'] == 'from_dict':
            nt += any(k in ('foo', 'bar', 'laser', 'filename', 'speedd', 'Speed') for k in c['dict'])
        else:
            nt += bool(c['export_dir'])
    rep.coverage.update({
        'evaluations': len(cases), 'distinct_nontrivial': nt,
        'rule': 'case = export(name) + dill round trip | load_parameters(name) with decoy files | YAML document | from_dict(dict) | '
                'close(export_dir, name); non-trivial: directory component / DEFAULT with an overridden key / an extra key / an export_dir',
        'samples': [cases[0], cases[len(cases) // 2], cases[-1]], 'traces_validated_against_impl': len(cases),
        'disagreements_checked': len(fails), 'distribution': hist,
    })


def same_value(a, b):
    try:
        import numpy as np
        if isinstance(a, np.ndarray) or isinstance(b, np.ndarray):
            return bool(np.array_equal(np.asarray(a), np.asarray(b), equal_nan=True))
        if hasattr(a, 'wkb') and hasattr(b, 'wkb'):
            return a.wkb == b.wkb
        if a == b:
            return True
        return repr(a) == repr(b)
    except Exception:
        return repr(a) == repr(b)


def replay(data):
    return common.replay_by_rerun('C19', data, run)
