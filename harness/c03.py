"""C03 / C12 - sessions of public compiler operations (with exceptions anywhere): well-formed, shutter-safe
programs, and reported dwell = executed dwell."""
from __future__ import annotations

import copy
import itertools
import json
import os
import pathlib

import numpy as np

import builders
import common
import lexer
import pgm
from common import cn, cz, cb, clist, cq, copt, frac

IMPORTS = 'From Femto Require Import Base.Num Ctl.Tok Geo.Rigid Pgm.Ops.'
ASSUMPTIONS = [
    'Python with-statement / contextlib semantics (finally blocks run) are exercised, not proved',
    'the reference controller Ctl/Machine.v is a specification written for this task',
    'loop counts are integers (non-integer counts are outside the property quantifier and not generated)',
]

FILES = ['a.pgm', 'B.pgm', 'sub/a.pgm', 'c.pgm', 'a.txt', 'a.PGM']
VARS = ['i', 'J', 'k']


# ---------------------------------------------------------------------------------------------
# op trees (JSON-able):  [kind, args...]

def closed_path(rng):
    k = rng.random()
    if k < 0.5:
        n = rng.choice([2, 3, 5, 8])
        xs = [j / 8 for j in range(-8, 9)]
        rows = [(rng.choice(xs), rng.choice(xs), 0.0, rng.choice([1.0, 2.0, 5.0]), 0)]
        s = 0
        for _ in range(n - 2):
            x, y, z, f, _s = rows[-1]
            c = rng.randrange(8)
            if c & 1:
                x = rng.choice(xs)
            if c & 2:
                f = rng.choice([1.0, 2.0, 5.0])
            if c & 4:
                s = 1 - s
            rows.append((x, y, z, f, s))
        x, y, z, f, _s = rows[-1]
        rows.append((x, y, z, f, 0))
        if rng.random() < 0.12:      # a feed the compiler must refuse - before anything of this path is emitted
            j = rng.randrange(len(rows))
            rows[j] = rows[j][:3] + (rng.choice([0.0, 1e-12]),) + rows[j][4:]
        return [list(map(float, r)) for r in rows]
    param, calls = builders.gen_wg_calls(rng, max_ops=2)
    param['cmd_rate_max'] = 20
    try:
        wg = builders.build_wg(param, calls)
        return wg.points.T.tolist()
    except Exception:
        return [[0.0, 0.0, 0.0, 1.0, 0.0], [1.0, 0.0, 0.0, 1.0, 0.0]]


def gen_leaf(rng):
    k = rng.random()
    if k < 0.22:
        return ['write', closed_path(rng)]
    if k < 0.32:
        pos = [rng.choice([None, 0.0, 1.5, -2.0]) for _ in range(3)]
        return ['move_to', pos, rng.choice([None, None, 3.0, 1e-12])]
    if k < 0.36:
        return ['go_origin']
    if k < 0.40:
        return ['go_init']
    if k < 0.50:
        return ['dwell', rng.choice(pgm.PAUSES)]
    if k < 0.54:
        return ['comment', rng.choice(['hello', ''])]
    if k < 0.59:
        return ['set_home', [rng.choice([None, 0.0, 1.0]) for _ in range(3)]]
    if k < 0.66:
        return ['dvar', [rng.choice(VARS + ['I', 'j']) for _ in range(rng.randint(1, 2))]]
    if k < 0.76:
        return ['load', rng.choice(FILES), rng.choice([2, 2, 3])]
    if k < 0.84:
        return ['farcall', rng.choice(FILES)]
    if k < 0.88:
        return ['buffered', rng.choice(FILES), rng.choice([2, 3])]
    if k < 0.96:
        return ['remove', rng.choice(FILES), rng.choice([2, 3])]
    if k < 0.98:
        return ['tic']
    return ['toc']


def gen_ops(rng, depth, budget):
    ops = []
    n = rng.randint(1, 4)
    for _ in range(n):
        if budget[0] <= 0:
            break
        budget[0] -= 1
        if depth > 0 and rng.random() < 0.3:
            k = rng.random()
            body = gen_ops(rng, depth - 1, budget)
            if k < 0.45:
                ops.append(['repeat', rng.choice([1, 2, 3, 3, 5, None, 0, -1]) if rng.random() < 0.15 else rng.choice([1, 2, 3, 4]), body])
            elif k < 0.8:
                ops.append(['for', rng.choice(VARS + [None]) if rng.random() < 0.1 else rng.choice(VARS),
                            rng.choice([None, 0]) if rng.random() < 0.08 else rng.choice([1, 2, 3]), body])
            else:
                ops.append(['axis_rotation', rng.choice([None, 10.0, 370.5, 360.0, 0, 0.0]), body])
        else:
            ops.append(gen_leaf(rng))
    return ops


def count_nodes(ops):
    return sum(1 + (count_nodes(o[-1]) if o[0] in ('repeat', 'for', 'axis_rotation') else 0) for o in ops)


def insert_raise(ops, pos):
    """a copy of ops with ['raise'] inserted at pre-order position pos (0..count_nodes)"""
    ops = copy.deepcopy(ops)
    counter = [0]

    def walk(lst):
        i = 0
        while i <= len(lst):
            if counter[0] == pos:
                # user code may be interrupted by any BaseException (KeyboardInterrupt, SystemExit), not only by an Exception
                lst.insert(i, ['raise'] if pos % 2 == 0 else ['raise', 'base'])
                counter[0] = -10 ** 9
                return True
            if i == len(lst):
                break
            counter[0] += 1
            o = lst[i]
            if o[0] in ('repeat', 'for', 'axis_rotation'):
                if walk(o[-1]):
                    return True
            i += 1
        return False
    walk(ops)
    return ops


def nontrivial(ops):
    def has_emit(lst):
        return any(o[0] in ('write', 'move_to', 'go_origin', 'go_init', 'dwell', 'farcall') or
                   (o[0] in ('repeat', 'for', 'axis_rotation') and has_emit(o[-1])) for o in lst)

    def walk(lst):
        names = {}
        for o in lst:
            if o[0] in ('repeat', 'for', 'axis_rotation') and (has_emit(o[-1]) or walk(o[-1])):
                return True
            if o[0] in ('load', 'farcall', 'remove', 'buffered'):
                names.setdefault(pathlib.PurePosixPath(o[1]).name, set()).add(o[0])
        return any(len(v) >= 2 for v in names.values())
    return walk(ops)


def dwell_in_loop(ops, inside=False):
    for o in ops:
        if o[0] in ('repeat', 'for') and isinstance(o[-2] if o[0] == 'repeat' else o[2], int):
            n = o[1] if o[0] == 'repeat' else o[2]
            if n and n >= 2 and dwell_in_loop(o[-1], True):
                return True
        elif o[0] == 'axis_rotation':
            if dwell_in_loop(o[-1], inside):
                return True
        elif inside and o[0] in ('dwell', 'write', 'move_to', 'go_init', 'go_origin', 'farcall'):
            return True
    return False


# ---------------------------------------------------------------------------------------------
# running femto

def interp(G, ops):
    for o in ops:
        k = o[0]
        if k == 'write':
            G.write(np.array(o[1], dtype=np.float32).T.copy())
        elif k == 'move_to':
            G.move_to(list(o[1]), speed_pos=o[2])
        elif k == 'go_origin':
            G.go_origin()
        elif k == 'go_init':
            G.go_init()
        elif k == 'dwell':
            G.dwell(o[1])
        elif k == 'comment':
            G.comment(o[1])
        elif k == 'set_home':
            G.set_home(list(o[1]))
        elif k == 'dvar':
            G.dvar(list(o[1]))
        elif k == 'load':
            G.load_program(o[1], o[2])
        elif k == 'remove':
            G.remove_program(o[1], o[2])
        elif k == 'farcall':
            G.farcall(o[1])
        elif k == 'buffered':
            G.bufferedcall(o[1], o[2])
        elif k == 'tic':
            G.tic()
        elif k == 'toc':
            G.toc()
        elif k == 'raise':
            raise (pgm.UserBoom() if len(o) == 1 else pgm.UserAbort())
        elif k == 'repeat':
            with G.repeat(o[1]):
                interp(G, o[2])
        elif k == 'for':
            with G.for_loop(o[1], o[2]):
                interp(G, o[3])
        elif k == 'axis_rotation':
            with G.axis_rotation(angle=o[1]):
                interp(G, o[2])
        else:
            raise AssertionError(k)


def run_impl(cfgd, ops):
    fn = 'c03.pgm'
    if os.path.exists(fn):
        os.remove(fn)
    raised = 0
    G = None
    with pgm.quiet():
        G = pgm.make_compiler(cfgd, fn)
        try:
            with G:
                interp(G, ops)
        except (ValueError, FileNotFoundError, pgm.UserBoom, pgm.UserAbort) as e:
            raised = pgm.EXC_KIND[type(e).__name__]
    return pgm.read_file(fn), raised, float(G.dwell_time)


def run_impl2(cfgd, ops1, ops2):
    """one compiler object, two files: `with G: ops1`, then (the public attribute filename re-assigned) `with G: ops2`"""
    for fn in ('c03a.pgm', 'c03b.pgm'):
        if os.path.exists(fn):
            os.remove(fn)
    raised = 0
    with pgm.quiet():
        G = pgm.make_compiler(cfgd, 'c03a.pgm')
        try:
            with G:
                interp(G, ops1)
        except (ValueError, FileNotFoundError, pgm.UserBoom, pgm.UserAbort):
            pass
        G.filename = 'c03b.pgm'
        try:
            with G:
                interp(G, ops2)
        except (ValueError, FileNotFoundError, pgm.UserBoom, pgm.UserAbort) as e:
            raised = pgm.EXC_KIND[type(e).__name__]
    return pgm.read_file('c03b.pgm'), raised, float(G.dwell_time)


def loop_path(rng):
    """a closed stroke that ends where it starts (what end() produces): first point shutter-closed, last point = first point"""
    xs = [j / 8 for j in range(-8, 9)]
    x0, y0 = rng.choice(xs), rng.choice(xs)
    f = rng.choice([1.0, 2.0, 5.0])
    rows = [(x0, y0, 0.0, 5.0, 0), (x0, y0, 0.0, f, 1)]
    for _ in range(rng.choice([1, 2, 4])):
        rows.append((rng.choice(xs), rng.choice(xs), 0.0, f, 1))
    rows.append(rows[-1][:4] + (0,))
    rows.append((x0, y0, 0.0, 5.0, 0))
    return [list(map(float, r)) for r in rows]


def gen_several_writes(rng, tier):
    """several paths written into one file, a later one starting where an earlier one ended, with something in between that
    moves or renames the machine position (G92, a loop, a rotation block, a positioning move) - or nothing"""
    for _ in range(30 if tier == 'quick' else 300):
        cfgd = pgm.gen_cfg(rng, allow_bad_laser=False)
        cfgd['output_digits'] = rng.choice([4, 6, 9])
        P, Q = loop_path(rng), loop_path(rng)
        k = rng.randrange(7)
        if k == 0:
            ops = [['write', P], ['set_home', [rng.choice([0.5, -1.0, 2.0]), rng.choice([0.25, 0.0]), 0.0]], ['write', P]]
        elif k == 1:
            ops = [['write', P], ['repeat', 2, [['write', Q]]], ['write', P]]
        elif k == 2:
            ops = [['repeat', rng.choice([2, 3]), [['write', P], ['write', Q]]], ['write', Q]]
        elif k == 3:
            ops = [['write', P], ['axis_rotation', rng.choice([10, 370.5]), [['write', P]]]]
        elif k == 4:
            ops = [['write', P], ['write', P], ['write', Q], ['write', Q]]
        elif k == 5:
            ops = [['write', P], ['move_to', [rng.choice([0.5, -1.0]), 0.25, 0.0], None], ['write', P]]
        else:
            ops = [['dvar', ['i']], ['for', 'i', 2, [['write', P], ['set_home', [0.0, 0.0, 0.0]]]], ['write', P]]
        yield 'several-writes-in-one-file', cfgd, ops


def several_writes(rep, prop, tier, seed):
    """the several-writes stream on its own, for C01: every path written into a file is replayed from where the machine is"""
    rng = common.rng_for(seed, prop, 'several-writes')
    cases, lits = [], []
    for stream, cfgd, ops in gen_several_writes(rng, tier):
        text, raised, dwell = run_impl(cfgd, ops)
        cases.append({'stream': stream, 'cfg': cfgd, 'ops': ops})
        lits.append(case_literal(cfgd, ops, text, raised, dwell))
    fails = common.run_model(prop, 'Harness.C03', 'C03.case', 'C03.failing', lits, shard=40, extra_imports=IMPORTS, tag='writes')
    for idx, code in fails:
        which = [NAMES[k] for k in range(len(NAMES)) if code >> k & 1]
        c = cases[idx]
        mine = [w for w in which if w in ('exposure', 'shutter-left-open', 'controller-error', 'parse')]
        if mine:
            rep.violation(f'{prop}/replay/several-writes-in-one-file', 'a path written after another one is not replayed point for point: '
                          + '+'.join(mine), {'input': c, 'failed': which, 'replay_with': 'C03'})
        else:
            rep.violation(f'{prop}/correspondence/' + '+'.join(which) + '/several-writes-in-one-file', 'model and femto disagree on ' + '+'.join(which),
                          {'input': c, 'failed': which, 'correspondence': 'Harness.C03.check (session token stream)'}, no_input=True)
    return len(cases)


def run_impl3(cfgd, pre, ops):
    """operations on a new compiler object before its `with` block, then the session"""
    fn = 'c03c.pgm'
    if os.path.exists(fn):
        os.remove(fn)
    raised = 0
    with pgm.quiet():
        G = pgm.make_compiler(cfgd, fn)
        interp(G, pre)
        try:
            with G:
                interp(G, ops)
        except (ValueError, FileNotFoundError, pgm.UserBoom, pgm.UserAbort) as e:
            raised = pgm.EXC_KIND[type(e).__name__]
    return pgm.read_file(fn), raised, float(G.dwell_time)


def gen_pre(rng, tier):
    """declarations / loads / pauses given before the `with` block, used inside it"""
    for _ in range(40 if tier == 'quick' else 500):
        cfgd = pgm.gen_cfg(rng, allow_bad_laser=False)
        v = rng.choice(VARS)
        f = rng.choice(['a.pgm', 'B.pgm', 'sub/a.pgm'])
        pre, ops = [], []
        if rng.random() < 0.6:
            pre.append(['dvar', [v]])
            ops.append(['for', v, rng.choice([1, 2, 3]), [['dwell', rng.choice(pgm.PAUSES)]] + ([['write', closed_path(rng)]] if rng.random() < 0.4 else [])])
        if rng.random() < 0.5:
            pre.append(['load', f, 2])
            ops += [[rng.choice(['farcall', 'farcall', 'buffered']), pathlib.PurePosixPath(f).name] if rng.random() < 0.8 else ['dwell', 0.5], ['remove', f, 2]]
            if ops[-2][0] == 'buffered':
                ops[-2] = ['buffered', pathlib.PurePosixPath(f).name, 2]
        if rng.random() < 0.5 or not pre:
            pre.insert(rng.randint(0, len(pre)), ['dwell', rng.choice([0.5, 2.0, 0.125])])
        if rng.random() < 0.3:
            ops += gen_ops(rng, depth=1, budget=[3])
        yield cfgd, pre, ops


def gen_reuse(rng, tier):
    for _ in range(40 if tier == 'quick' else 500):
        cfgd = pgm.gen_cfg(rng, allow_bad_laser=False)
        v = rng.choice(VARS)
        loop = lambda: ['for', v, rng.choice([1, 2, 3]), [['dwell', rng.choice(pgm.PAUSES)]] + ([['write', closed_path(rng)]] if rng.random() < 0.4 else [])]
        k = rng.random()
        if k < 0.3:        # declared and used in the first file, used again in the second without a declaration of its own
            ops1, ops2 = [['dvar', [v]], loop()], [loop()]
        elif k < 0.6:      # ... declared again
            ops1, ops2 = [['dvar', [v]], loop()], [['dvar', [v.upper() if rng.random() < 0.3 else v]], loop()]
        elif k < 0.8:
            ops1 = gen_ops(rng, depth=2, budget=[6])
            ops2 = gen_ops(rng, depth=2, budget=[6])
        else:              # the first session ends with an exception raised by user code
            ops1 = insert_raise(gen_ops(rng, depth=2, budget=[5]), rng.randint(0, 2))
            ops2 = [['dvar', [v]], loop()] if rng.random() < 0.5 else gen_ops(rng, depth=1, budget=[4])
        yield cfgd, ops1, ops2


# ---------------------------------------------------------------------------------------------
# rendering for the model

def oq(v):
    return copt(None if v is None else cq(frac(v)))


def fname_lit(name, it):
    p = pathlib.PurePosixPath(name)
    return '{| f_arg := %s; f_base := %s; f_pgm := %s |}' % (cn(it(str(p))), cn(it(p.name)), cb(p.suffix == '.pgm'))


def op_lit(o, it):
    k = o[0]
    if k == 'write':
        return '(OWrite %s)' % pgm.pts_literal(np.array(o[1], dtype=np.float32).T)
    if k == 'move_to':
        return '(OMoveTo %s %s %s %s)' % (*(oq(v) for v in o[1]), oq(o[2]))
    if k == 'go_origin':
        return 'OGoOrigin'
    if k == 'go_init':
        return 'OGoInit'
    if k == 'dwell':
        return '(ODwell %s)' % copt(None if o[1] is None else cq(pgm.pause_q(o[1])))
    if k == 'comment':
        return 'OComment'
    if k == 'set_home':
        return '(OSetHome %s %s %s)' % tuple(oq(v) for v in o[1])
    if k == 'dvar':
        return '(ODvar %s)' % clist(cn(it.var(v)) for v in o[1])
    if k == 'load':
        return '(OLoad %s %s)' % (fname_lit(o[1], it), cz(o[2]))
    if k == 'remove':
        return '(ORemove %s %s)' % (fname_lit(o[1], it), cz(o[2]))
    if k == 'farcall':
        return '(OFarcall %s)' % fname_lit(o[1], it)
    if k == 'buffered':
        return '(OBuffered %s %s)' % (fname_lit(o[1], it), cz(o[2]))
    if k == 'tic':
        return 'OTic'
    if k == 'toc':
        return 'OToc'
    if k == 'raise':
        return 'ORaise'
    if k == 'repeat':
        return '(ORepeat %s %s)' % (copt(None if o[1] is None else cz(o[1])), ops_lit(o[2], it))
    if k == 'for':
        return '(OFor %s %s %s)' % (copt(None if o[1] is None else cn(it.var(o[1]))),
                                    copt(None if o[2] is None else cz(o[2])), ops_lit(o[3], it))
    if k == 'axis_rotation':
        return '(OAxisRot %s %s)' % (cb(o[1] is not None), ops_lit(o[2], it))
    raise AssertionError(k)


def ops_lit(ops, it):
    return clist(op_lit(o, it) for o in ops)


def case_literal(cfgd, ops, text, raised, dwell, it=None):
    tm = pgm.t_matrix_of(cfgd)
    it = it or lexer.Interner()
    toks = lexer.lex(text, it) if text is not None else []
    return ('{| k_cfg := %s; k_ops := %s; k_toks := %s; k_written := %s; k_raised := %s; k_dwell := %s |}' % (
        pgm.cfg_literal(cfgd, tm), ops_lit(ops, it), lexer.toks_literal(toks), cb(text is not None), cn(raised),
        cq(frac(dwell))))


NAMES = ['written', 'exception', 'tokens', 'dwell-report', 'parse', 'controller-error', 'rotation-left-on',
         'shutter-left-open', 'exposure', 'dwell-executed', 'call-of-unloaded-program']
MONITOR_BITS = {'parse', 'controller-error', 'rotation-left-on', 'shutter-left-open', 'exposure', 'dwell-executed',
                'call-of-unloaded-program'}
# which monitor outcomes belong to which property
OWN = {'C03': {'parse', 'controller-error', 'rotation-left-on', 'shutter-left-open', 'exposure', 'call-of-unloaded-program'},
       'C12': {'dwell-executed'}}


def loaded_in_loop_signature(ops):
    """shape used to key the known finding: a loop whose body changes the set of loaded programs"""
    def delta(lst):
        d = 0
        for o in lst:
            if o[0] == 'load':
                d += 1
            elif o[0] == 'remove':
                d -= 1
            elif o[0] in ('repeat', 'for', 'axis_rotation'):
                d += delta(o[-1])
        return d

    def walk(lst):
        for o in lst:
            if o[0] in ('repeat', 'for'):
                if any(x[0] in ('load', 'remove') for x in flat(o[-1])):
                    return True
            if o[0] in ('repeat', 'for', 'axis_rotation') and walk(o[-1]):
                return True
        return False

    def flat(lst):
        for o in lst:
            yield o
            if o[0] in ('repeat', 'for', 'axis_rotation'):
                yield from flat(o[-1])
    return walk(ops)


def gen_cases(rng, tier):
    quick = tier == 'quick'
    for _ in range(110 if quick else 1500):
        cfgd = pgm.gen_cfg(rng)
        ops = gen_ops(rng, depth=rng.choice([1, 2, 3]), budget=[rng.choice([4, 8, 14])])
        yield 'random', cfgd, ops
        n = count_nodes(ops)
        positions = range(n + 1) if (quick is False or n <= 6) else sorted(rng.sample(range(n + 1), 6))
        for pos in positions:
            yield 'raise-at-%s' % ('every' if len(list(positions)) == n + 1 else 'sampled'), cfgd, insert_raise(ops, pos)
    # directed: loops around dwell / load-call-remove disciplines
    for _ in range(60 if quick else 600):
        cfgd = pgm.gen_cfg(rng, allow_bad_laser=False)
        f = rng.choice(['a.pgm', 'B.pgm', 'sub/a.pgm'])
        body = [['load', f, 2], ['farcall', pathlib.PurePosixPath(f).name], ['dwell', rng.choice(pgm.PAUSES)], ['remove', f, 2]]
        k = rng.random()
        if k < 0.4:
            ops = [['repeat', rng.choice([1, 2, 3]), body]]
        elif k < 0.6:
            ops = [['dvar', ['i']], ['for', 'I', rng.choice([1, 2, 4]), body + [['write', closed_path(rng)]]]]
        elif k < 0.7:
            ops = [['load', f, 2], ['repeat', rng.choice([2, 3]), [['farcall', f], ['repeat', 2, [['dwell', 0.25], ['go_init']]]]], ['remove', f, 2]]
        elif k < 0.8:
            # the tracked loaded-set is linear while the controller runs the body repeatedly
            ops = [['load', f, 2], ['repeat', rng.choice([2, 3]), [['farcall', f], ['remove', f, 2]]]]
        else:
            ops = [['axis_rotation', 12.5, [['write', closed_path(rng)], ['repeat', 2, [['write', closed_path(rng)]]]]]]
        yield 'directed', cfgd, ops
    yield from gen_several_writes(rng, tier)
    # directed: a pause after an inner loop has closed, still inside the outer one (2 or 3 levels, FOR and REPEAT mixed)
    for _ in range(24 if quick else 240):
        cfgd = pgm.gen_cfg(rng, allow_bad_laser=False)
        p = lambda: ['dwell', rng.choice([0.25, 0.5, 1.5, -0.75])]
        lp = lambda n, body: (['for', 'i', n, body] if rng.random() < 0.5 else ['repeat', n, body])
        inner = lp(rng.choice([2, 3]), [p()])
        if rng.random() < 0.5:
            inner = lp(rng.choice([2, 3]), [inner, p()] if rng.random() < 0.6 else [p(), inner])
        body = [inner, p()] if rng.random() < 0.7 else [p(), inner, p()]
        yield 'directed-nested-dwell', cfgd, [['dvar', ['i']], lp(rng.choice([2, 3, 4]), body), p()]


def run_for(prop: str, rep: common.Report, tier: str, seed: int):
    rng = common.rng_for(seed, 'C03', 'main')     # same histories for C03 and C12
    cases, lits = [], []
    hist = {'streams': {}, 'nodes': {}, 'op_kinds': {}, 'exceptions': {}, 'written': 0}
    corpus = common.VERIF / 'corpus' / 'C03'
    pre = []
    if corpus.exists():
        for p in sorted(corpus.glob('*.json')):
            d = json.loads(p.read_text())
            pre.append(('corpus', d['cfg'], d['ops']))

    def kinds(lst):
        for o in lst:
            hist['op_kinds'][o[0]] = hist['op_kinds'].get(o[0], 0) + 1
            if o[0] in ('repeat', 'for', 'axis_rotation'):
                kinds(o[-1])
    for stream, cfgd, ops in itertools.chain(pre, gen_cases(rng, tier)):
        text, raised, dwell = run_impl(cfgd, ops)
        cases.append({'stream': stream, 'cfg': cfgd, 'ops': ops})
        lits.append(case_literal(cfgd, ops, text, raised, dwell))
        hist['streams'][stream] = hist['streams'].get(stream, 0) + 1
        n = count_nodes(ops)
        hist['nodes'][n] = hist['nodes'].get(n, 0) + 1
        hist['exceptions'][raised] = hist['exceptions'].get(raised, 0) + 1
        hist['written'] += text is not None
        kinds(ops)
    # one compiler object writing two files: the second file is judged like any other
    n_single = len(cases)
    lits2 = []
    rng2 = common.rng_for(seed, 'C03', 'reuse')
    for cfgd, ops1, ops2 in gen_reuse(rng2, tier):
        text, raised, dwell = run_impl2(cfgd, ops1, ops2)
        it = lexer.Interner()
        first = ops_lit(ops1, it)
        cases.append({'stream': 'second-file-of-one-compiler', 'cfg': cfgd, 'ops': ops2, 'first_session': ops1})
        lits2.append('{| k2_first := %s; k2 := %s |}' % (first, case_literal(cfgd, ops2, text, raised, dwell, it)))
        hist['streams']['second-file-of-one-compiler'] = hist['streams'].get('second-file-of-one-compiler', 0) + 1
    # operations given before the `with` block
    n_two = len(cases)
    lits3 = []
    rng3 = common.rng_for(seed, 'C03', 'pre')
    for cfgd, pre_ops, ops in gen_pre(rng3, tier):
        text, raised, dwell = run_impl3(cfgd, pre_ops, ops)
        it = lexer.Interner()
        pre_l = ops_lit(pre_ops, it)
        cases.append({'stream': 'operations-before-the-with-block', 'cfg': cfgd, 'ops': ops, 'before_with': pre_ops})
        lits3.append('{| k3_pre := %s; k3 := %s |}' % (pre_l, case_literal(cfgd, ops, text, raised, dwell, it)))
        hist['streams']['operations-before-the-with-block'] = hist['streams'].get('operations-before-the-with-block', 0) + 1
    fails3 = common.run_model(prop, 'Harness.C03', 'C03.case3', 'C03.failing3', lits3, shard=40, extra_imports=IMPORTS, tag='pre')
    fails = common.run_model(prop, 'Harness.C03', 'C03.case', 'C03.failing', lits, shard=40, extra_imports=IMPORTS)
    fails2 = common.run_model(prop, 'Harness.C03', 'C03.case2', 'C03.failing2', lits2, shard=40, extra_imports=IMPORTS, tag='reuse')
    fails = list(fails) + [(n_single + i, code) for i, code in fails2] + [(n_two + i, code) for i, code in fails3]
    for idx, code in fails:
        which = [NAMES[k] for k in range(len(NAMES)) if code >> k & 1]
        c = cases[idx]
        mine = [w for w in which if w in OWN[prop]]
        if mine:
            sig = '+'.join(mine)
            if mine == ['call-of-unloaded-program'] and loaded_in_loop_signature(c['ops']):
                sig = 'call-of-unloaded-program/loaded-set-changed-inside-loop'
            rep.violation(f'{prop}/{sig}', 'femto\'s program fails on the reference controller: ' + '+'.join(mine),
                          {'input': c, 'failed': which})
        elif not (set(which) & MONITOR_BITS):
            rep.violation(f'{prop}/correspondence/' + '+'.join(which), 'model and femto disagree on ' + '+'.join(which),
                          {'input': c, 'failed': which, 'correspondence': 'Harness.C03.check (session token stream)'},
                          no_input=True)
    seen, nt = set(), 0
    for c in cases:
        h = common.digest([c['cfg'], c['ops']])
        if h in seen:
            continue
        seen.add(h)
        if (prop == 'C03' and nontrivial(c['ops'])) or (prop == 'C12' and dwell_in_loop(c['ops'])):
            nt += 1
    rep.coverage.update({
        'evaluations': len(cases), 'distinct_nontrivial': nt,
        'rule': ('case = (cfg, op tree, raise position or none); non-trivial: a loop or rotation block containing an emitting op, '
                 'or a load/call/remove interaction on one name') if prop == 'C03' else
                'case = (cfg, op tree, raise position or none); non-trivial: a dwell-producing op inside a loop of count >= 2',
        'samples': [cases[i] for i in (0, len(cases) // 2, len(cases) - 1)],
        'traces_validated_against_impl': len(cases), 'disagreements_checked': len(fails), 'distribution': hist,
    })
    return cases


def nonfinite_cases(rep, rng, quick):
    """'every number finite': NaN / infinity handed to the compiler's public operations in any numeric form (python float,
    numpy float64 / float32 scalars, float32 matrices) must be refused - nothing non-finite may be printed"""
    import re
    n = 0
    forms = [float, np.float64, np.float32]
    for form in forms:
        for bad in (float('nan'), float('inf'), float('-inf')):
            v = form(bad)
            jobs = {
                'move_to-coordinate': lambda G: G.move_to([1.0, v, 0.0]),
                'move_to-speed': lambda G: G.move_to([1.0, 0.0, 0.0], speed_pos=v),
                'set_home': lambda G: G.set_home([0.0, 0.0, v]),
                'write-feed': lambda G: G.write(np.array([[0, 1, 1], [0, 0, 0], [0, 0, 0], [5, v, 5], [0, 1, 0]], dtype=type(v) if form is not float else np.float64)),
                'write-coordinate': lambda G: G.write(np.array([[0, 1, 1], [0, v, 0], [0, 0, 0], [5, 5, 5], [0, 1, 0]], dtype=type(v) if form is not float else np.float64)),
            }
            for name, job in jobs.items():
                cfgd = pgm.gen_cfg(rng, allow_bad_laser=False)
                fn = 'c03nf.pgm'
                if os.path.exists(fn):
                    os.remove(fn)
                raised = None
                with pgm.quiet(), np.errstate(all='ignore'):
                    try:
                        with pgm.make_compiler(cfgd, fn) as G:
                            job(G)
                    except ValueError:
                        raised = 'ValueError'
                    except Exception as e:
                        raised = type(e).__name__
                text = pgm.read_file(fn) or ''
                n += 1
                bad_lines = [ln for ln in text.splitlines() if re.search(r'(?<![A-Za-z])(nan|inf)', ln.split(';')[0], flags=re.I)
                             and not ln.upper().startswith(('MSG', 'DVAR'))]
                if bad_lines:
                    rep.violation(f'C03/non-finite-number-printed/{name}', f'{name} with {form.__name__}({bad}) printed {bad_lines[0]!r}',
                                  {'input': {'operation': name, 'value': repr(bad), 'form': form.__name__, 'cfg': cfgd}, 'raised': raised,
                                   'lines': bad_lines[:3]})
    return n


def run(rep, tier, seed):
    run_for('C03', rep, tier, seed)
    n = nonfinite_cases(rep, common.rng_for(seed, 'C03', 'nonfinite'), tier == 'quick')
    rep.coverage['evaluations'] += n
    rep.coverage['nonfinite_cases'] = n


def replay(data, prop='C03'):
    c = data['input']
    common.fresh_cwd(prop)
    if 'first_session' in c:
        text, raised, dwell = run_impl2(c['cfg'], c['first_session'], c['ops'])
        it = lexer.Interner()
        first = ops_lit(c['first_session'], it)
        lit = '{| k2_first := %s; k2 := %s |}' % (first, case_literal(c['cfg'], c['ops'], text, raised, dwell, it))
        fails = common.run_model(prop, 'Harness.C03', 'C03.case2', 'C03.failing2', [lit], tag='replay', extra_imports=IMPORTS)
        print('replay:', 'FAILS' if fails else 'passes', fails)
        return 1 if fails else 0
    if 'before_with' in c:
        text, raised, dwell = run_impl3(c['cfg'], c['before_with'], c['ops'])
        it = lexer.Interner()
        pre_l = ops_lit(c['before_with'], it)
        lit = '{| k3_pre := %s; k3 := %s |}' % (pre_l, case_literal(c['cfg'], c['ops'], text, raised, dwell, it))
        fails = common.run_model(prop, 'Harness.C03', 'C03.case3', 'C03.failing3', [lit], tag='replay', extra_imports=IMPORTS)
        print('replay:', 'FAILS' if fails else 'passes', fails)
        return 1 if fails else 0
    text, raised, dwell = run_impl(c['cfg'], c['ops'])
    lit = case_literal(c['cfg'], c['ops'], text, raised, dwell)
    fails = common.run_model(prop, 'Harness.C03', 'C03.case', 'C03.failing', [lit], tag='replay', extra_imports=IMPORTS)
    print('replay:', 'FAILS' if fails else 'passes', fails)
    return 1 if fails else 0
