"""C14 - marker primitives draw exactly the documented figure."""
from __future__ import annotations

import math

import numpy as np

import builders
import common
import pgm
from common import cq, cb, clist, copt, frac

IMPORTS = 'From Femto Require Import Path.Laser Path.Marker.'
ASSUMPTIONS = [
    'the model computes in exact rationals; femto stores float32: coordinates are compared within 1e-5*(1+|v|)',
    'meander pass counts floor(|extent|/delta) are generated away from integer quotients (or exactly dyadic)',
]


def q3(p):
    return '(%s, %s, %s)' % tuple(cq(frac(v)) for v in p)


def lpt_lit(x, y, z, f, s):
    return '{| lx := %s; ly := %s; lz := %s; lf := %s; ls := %s |}' % (cq(frac(x)), cq(frac(y)), cq(frac(z)), cq(frac(f)), cb(s != 0))


def call_lit(param, call):
    k = call[0]
    depth = param.get('depth', 0.0)
    lx = param.get('lx', 1.0)
    ly = param.get('ly', 0.06)
    if k == 'cross':
        pos = list(call[1]) + ([depth] if len(call[1]) == 2 else [])
        return '(KCross %s %s %s)' % (q3(pos), cq(frac(lx if call[2] is None else call[2])), cq(frac(ly if call[3] is None else call[3])))
    if k == 'ruler':
        return '(KRuler %s %s %s %s)' % (clist(cq(frac(t)) for t in call[1]), cq(frac(lx if call[2] is None else call[2])),
                                         cq(frac(0.75 * lx if call[3] is None else call[3])),
                                         cq(frac(param.get('x_init', -2.0) if call[4] is None else call[4])))
    if k == 'meander':
        p0 = list(call[1]) + ([depth] if len(call[1]) == 2 else [])
        pf = call[2]
        return '(KMeander %s (%s, %s) %s %s %s)' % (q3(p0), cq(frac(pf[0])), cq(frac(pf[1])), cq(frac(call[3])), cq(frac(call[4])),
                                                    cb(call[5].lower() == 'x'))
    if k == 'ablation':
        return '(KAblation %s %s)' % (clist(q3(p) for p in call[1]), copt(None if call[2] is None else cq(frac(call[2]))))
    if k == 'box':
        return '(KBox %s %s %s)' % (q3(call[1]), cq(frac(call[2])), cq(frac(call[3])))
    raise AssertionError(k)


def cfg_lit(param):
    return '{| m_speed := %s; m_speed_pos := %s; m_speed_closed := %s; m_depth := %s |}' % (
        cq(frac(param.get('speed', 1.0))), cq(frac(param.get('speed_pos', 0.5))), cq(frac(param.get('speed_closed', 5))),
        cq(frac(param.get('depth', 0.0))))


def gen_call(rng):
    param, call = builders.gen_marker_call(rng)
    if call[0] == 'meander':
        # extents away from integer multiples of delta, or exactly dyadic; 2-D and 3-D positions
        delta = rng.choice([0.01, 1 / 64, 0.003])
        if delta == 1 / 64:
            ext = rng.choice([0, 1, 3, 7, -5]) / 64 + rng.choice([0.0, 1 / 256])
        else:
            ext = rng.choice([1, -1]) * (rng.randint(0, 12) + rng.choice([0.3, 0.5, 0.77])) * delta
        orient = rng.choice(['x', 'y', 'X', 'Y'])
        two_d = rng.random() < 0.4
        p0 = [rng.choice([0.0, 1.0]), rng.choice([0.0, -0.5])] + ([] if two_d else [rng.choice([0.0, 0.01])])
        other = rng.choice([0.0, 0.3])
        p1 = [p0[0] + (ext if orient.lower() == 'y' else other), p0[1] + (ext if orient.lower() == 'x' else other)]
        if rng.random() < 0.5:
            p1.append(0.0)
        call = ('meander', p0, p1, rng.choice([1.0, 0.5, -0.25]), delta, orient)
    return param, call


def nontrivial(call):
    k = call[0]
    if k == 'cross' or k == 'box':
        return True
    if k == 'ruler':
        return len(set(call[1])) >= 2
    if k == 'meander':
        return True
    if k == 'ablation':
        return len(call[1]) >= 3 or call[2] is not None
    return False


def run_one(param, call):
    mk = builders.build_marker(param, call)
    raw = list(zip(mk._x, mk._y, mk._z, mk._f, mk._s))
    pts = mk.points
    pl = [] if pts.ndim != 2 else list(zip(*pts))
    return ('{| k_cfg := %s; k_call := %s; k_raw := %s; k_pts := %s |}' % (
        cfg_lit(param), call_lit(param, call), clist(lpt_lit(*p) for p in raw), clist(lpt_lit(*p) for p in pl)))


def run(rep: common.Report, tier: str, seed: int):
    rng = common.rng_for(seed, 'C14', 'main')
    quick = tier == 'quick'
    cases, lits = [], []
    hist = {'kinds': {}, 'raised': {}}
    for _ in range(500 if quick else 6000):
        param, call = gen_call(rng)
        try:
            lit = run_one(param, call)
        except Exception as e:   # femto raised on a documented input
            key = f'{call[0]}/{type(e).__name__}'
            hist['raised'][key] = hist['raised'].get(key, 0) + 1
            two_d = call[0] == 'meander' and len(call[1]) == 2
            rep.violation(f'C14/raises/{call[0]}' + ('/2-D-position' if two_d else ''),
                          f'{call[0]} raised {type(e).__name__}: {e}', {'input': {'param': param, 'call': call}, 'kind': 'raise'})
            continue
        cases.append({'param': param, 'call': call})
        lits.append(lit)
        hist['kinds'][call[0]] = hist['kinds'].get(call[0], 0) + 1
    fails = common.run_model('C14', 'Harness.C14', 'C14.case', 'C14.failing', lits, shard=100, extra_imports=IMPORTS)
    names = ['trajectory', 'strokes-raw', 'strokes-points', 'ends-closed']
    for idx, code in fails:
        which = [names[k] for k in range(4) if code >> k & 1]
        mon = [w for w in which if w != 'trajectory']
        c = cases[idx]
        if mon:
            rep.violation(f'C14/{c["call"][0]}/' + '+'.join(mon), f'{c["call"][0]}: strokes differ from the documented figure ({"+".join(mon)})',
                          {'input': c, 'failed': which})
        else:
            rep.violation(f'C14/correspondence/{c["call"][0]}', 'model and femto disagree on the recorded trajectory',
                          {'input': c, 'failed': which, 'correspondence': 'Harness.C14.check'}, no_input=True)
    seen, nt = set(), 0
    for c in cases:
        h = common.digest(c)
        if h not in seen:
            seen.add(h)
            nt += nontrivial(c['call'])
    rep.coverage.update({
        'evaluations': len(cases) + sum(hist['raised'].values()), 'distinct_nontrivial': nt,
        'rule': 'case = (marker parameters, primitive call); non-trivial: figure with >= 2 strokes or >= 3 vertices',
        'samples': cases[:2] + cases[-1:], 'traces_validated_against_impl': len(cases), 'disagreements_checked': len(fails),
        'distribution': hist,
    })


def replay(data):
    c = data['input']
    common.fresh_cwd('C14')
    try:
        lit = run_one(c['param'], c['call'])
    except Exception as e:
        print('replay: FAILS (raises %r)' % e)
        return 1
    fails = common.run_model('C14', 'Harness.C14', 'C14.case', 'C14.failing', [lit], tag='replay', extra_imports=IMPORTS)
    print('replay:', 'FAILS' if fails else 'passes', fails)
    return 1 if fails else 0
