"""C15 - raster paths expose exactly the black pixels."""
from __future__ import annotations

import itertools

import numpy as np

import common
import pgm
from common import cq, cb, clist, cnat, frac

ASSUMPTIONS = [
    'PIL mode conversion (convert("1")) is an oracle: the model receives the boolean matrix numpy sees after conversion',
    'linspace is evaluated in float64 and stored as float32: coordinates are compared within 2.5e-7 relative',
]


def rpt_lit(x, y, z, f, s):
    return '{| rx := %s; ry := %s; rz := %s; rf := %s; rs := %s |}' % (cq(frac(x)), cq(frac(y)), cq(frac(z)), cq(frac(f)),
                                                                     cb(s != 0))


def run_case(param, px_white, mode, pre=None):
    """px_white[r][c] True = white pixel. Returns (literal, descr)."""
    from femto.rasterimage import RasterImage
    from PIL import Image
    h, w = len(px_white), len(px_white[0])
    if mode == '1':
        img = Image.new('1', (w, h))
        img.putdata([1 if v else 0 for row in px_white for v in row])
    elif mode == 'L':
        img = Image.new('L', (w, h))
        img.putdata([255 if v else 0 for row in px_white for v in row])
    else:
        img = Image.new('RGB', (w, h))
        img.putdata([(255, 255, 255) if v else (0, 0, 0) for row in px_white for v in row])
    conv = img if img.mode == '1' else img.convert('1')
    seen_white = np.asarray(conv, dtype=bool)
    with pgm.quiet():
        if pre is None:
            r = RasterImage(**param)
        else:
            # the scale is a public attribute: an object built (and asked for its size) at one scale, then set to another
            r = RasterImage(**dict(param, px_to_mm=pre, img_size=img.size))
            try:
                r.path_size
            except Exception:
                pass
            r.px_to_mm = param.get('px_to_mm', 0.01)
        r.image_to_path(img)
    raw = list(zip(r._x, r._y, r._z, r._f, r._s))
    pts = r.points
    pl = [] if pts.ndim != 2 else list(zip(*pts))
    z = param.get('z_init')
    z = 0.0 if z is None else z
    lit = ('{| k_img := %s; k_w := %s; k_h := %s; k_px := %s; k_z := %s; k_speed := %s; k_closed := %s; k_raw := %s; k_pts := %s |}' % (
        clist(clist(cb(not v) for v in row) for row in seen_white.tolist()), cnat(w), cnat(h),
        cq(frac(param.get('px_to_mm', 0.01))), cq(frac(np.float32(z))), cq(frac(np.float32(param.get('speed', 1.0)))),
        cq(frac(np.float32(param.get('speed_closed', 5)))),
        clist(rpt_lit(*p) for p in raw), clist(rpt_lit(*p) for p in pl)))
    return lit


def run(rep: common.Report, tier: str, seed: int):
    rng = common.rng_for(seed, 'C15', 'main')
    quick = tier == 'quick'
    cases, lits = [], []
    hist = {'sizes': {}, 'modes': {}, 'streams': {}}

    def add(param, px, mode, stream, pre=None):
        lits.append(run_case(param, px, mode, pre))
        cases.append({'param': param, 'white': px, 'mode': mode, 'stream': stream, 'pre': pre})
        k = f'{len(px[0])}x{len(px)}'
        hist['sizes'][k] = hist['sizes'].get(k, 0) + 1
        hist['modes'][mode] = hist['modes'].get(mode, 0) + 1
        hist['streams'][stream] = hist['streams'].get(stream, 0) + 1

    base = dict(px_to_mm=0.01, speed=1.0, speed_closed=5)
    # exhaustive: every image with w*h <= limit
    limit = 8 if quick else 12
    for w in range(1, limit + 1):
        for h in range(1, limit // w + 1):
            if w * h > limit:
                continue
            for bits in itertools.product([False, True], repeat=w * h):
                px = [list(bits[r * w:(r + 1) * w]) for r in range(h)]
                add(dict(base, px_to_mm=rng.choice([0.01, 0.04, 0.125])), px, '1', 'exhaustive')
    for _ in range(120 if quick else 1500):
        w, h = rng.randint(1, 24 if quick else 64), rng.randint(1, 12 if quick else 64)
        p = rng.choice([0.1, 0.5, 0.9, 0.0, 1.0])
        px = [[rng.random() < p for _ in range(w)] for _ in range(h)]
        param = dict(px_to_mm=rng.choice([0.01, 0.04, 0.125, 0.3]), speed=rng.choice([1.0, 2.0, 0.3, 3.0]),
                     speed_closed=rng.choice([5, 3.0, 3.0]),     # speed == speed_closed happens (1 case in 6)
                     z_init=rng.choice([None, 0.0, -0.01, 0.035]))
        if rng.random() < 0.2:
            add(param, px, rng.choice(['1', 'L', 'RGB']), 'rescaled', pre=rng.choice([0.02, 0.5, 0.01]))
        else:
            add(param, px, rng.choice(['1', 'L', 'RGB']), 'random')
    fails = common.run_model('C15', 'Harness.C15', 'C15.case', 'C15.failing', lits, shard=100,
                             extra_imports='From Femto Require Import Path.Raster.')
    names = ['trajectory', 'strokes-raw', 'strokes-points', 'closed-ends']
    for idx, code in fails:
        which = [names[k] for k in range(4) if code >> k & 1]
        mon = [w for w in which if w != 'trajectory']
        if mon:
            rep.violation('C15/' + '+'.join(mon), 'open-shutter strokes differ from the maximal runs of black pixels: ' + '+'.join(mon),
                          {'input': cases[idx], 'failed': which})
        else:
            rep.violation('C15/correspondence/trajectory', 'model and femto disagree on the recorded trajectory',
                          {'input': cases[idx], 'failed': which, 'correspondence': 'Harness.C15.check'}, no_input=True)
    seen, nt = set(), 0
    for c in cases:
        hsh = common.digest([c['white'], c['param'], c['mode']])
        if hsh in seen:
            continue
        seen.add(hsh)
        flat = [v for row in c['white'] for v in row]
        if any(flat) and not all(flat):
            nt += 1
    rep.coverage.update({
        'evaluations': len(cases), 'distinct_nontrivial': nt,
        'rule': f'case = (image, scale); all images with w*h <= {limit} exhaustively, random larger ones in modes 1/L/RGB; '
                'non-trivial: at least one black and one white pixel',
        'samples': [cases[3], cases[len(cases) // 2], cases[-1]], 'exhaustive': False,
        'traces_validated_against_impl': len(cases), 'disagreements_checked': len(fails), 'distribution': hist,
    })


def replay(data):
    c = data['input']
    common.fresh_cwd('C15')
    lit = run_case(c['param'], c['white'], c['mode'], c.get('pre'))
    fails = common.run_model('C15', 'Harness.C15', 'C15.case', 'C15.failing', [lit], tag='replay',
                             extra_imports='From Femto Require Import Path.Raster.')
    print('replay:', 'FAILS' if fails else 'passes', fails)
    return 1 if fails else 0
