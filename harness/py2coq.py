"""Source translator: femto/pgmcompiler.py (class PGMCompiler) -> coq/theories/Gen/PgmSrc.v.

A syntax-directed, fail-closed translation of the *bookkeeping* methods of the G-code compiler (everything that
decides which lines are emitted, in which order, with which tracked state) into Gallina definitions over the monad and
the overloaded primitives of Gen/PyPrelude.v / Gen/PgmState.v.  No type inference happens here: the emitted terms are
typed by coqc (type classes pick the instance of ==, truthiness, `is None`, interpolation ...), so a construct that is
translated wrongly for its types does not compile, and any construct outside the supported subset raises Unsupported.
Gen/PgmEquiv.v (hand-written, proved) then relates every generated definition to the hand-written model Pgm/Ops.v.

Usage:  py2coq.py [<repo>/src/femto/pgmcompiler.py] [<out.v>]     (writes only when the content changes)
"""
from __future__ import annotations

import ast
import os
import re
import pathlib
import sys
from fractions import Fraction


class Unsupported(Exception):
    pass


KEYWORDS = {'as', 'at', 'cofix', 'else', 'end', 'exists', 'fix', 'for', 'forall', 'fun', 'if', 'in', 'let', 'match',
            'mod', 'return', 'then', 'using', 'where', 'with', 'type', 'Type', 'Set', 'Prop', 'mode', 'home', 'laser',
            'speed_pos', 'line', 'piece', 'get', 'ret', 'raise', 'bind', 'c', 'lower', 'instructions', 'dvars'}

# constructor parameters read through self.<attr>  ->  field of pcfg
CFG_ATTRS = {'laser', 'output_digits', 'long_pause', 'short_pause', 'speed_pos', 'home', 'aerotech_angle',
             'rotation_angle'}
# mutable attributes -> field of pst
STATE_ATTRS = {'_total_dwell_time': 'total_dwell_time', '_shutter_on': 'shutter_on', '_mode_abs': 'mode_abs',
               '_instructions': 'instructions', '_loaded_files': 'loaded_files', '_dvars': 'dvars'}
# attributes of a pathlib.Path value
PATH_ATTRS = {'stem': 'pp_stem', 'name': 'pp_name'}

# translated methods: name -> (kind, [(param, coq type)], return type)
#   kind: 'method' | 'property' | 'ctx' (a @contextlib.contextmanager generator: gets the block body as last argument)
METHODS = {
    'pso_label': ('property', [], 'string'),
    'comment': ('method', [('comstring', 'string')], 'unit'),
    'instruction': ('method', [('instr', 'line')], 'unit'),
    'mode': ('method', [('mode', 'option string')], 'unit'),
    'dwell': ('method', [('pause', 'option Q')], 'unit'),
    'shutter': ('method', [('state', 'option string')], 'unit'),
    'header': ('method', [], 'unit'),
    'dvar': ('method', [('variables', 'list string')], 'unit'),
    '_format_args': ('method', [('x', 'option Q'), ('y', 'option Q'), ('z', 'option Q'), ('f', 'option Q')], 'line'),
    'set_home': ('method', [('home_pos', 'list (option Q)')], 'unit'),
    'move_to': ('method', [('position', 'list (option Q)'), ('speed_pos', 'option Q')], 'unit'),
    'go_origin': ('method', [], 'unit'),
    'go_init': ('method', [], 'unit'),
    '_enter_axis_rotation': ('method', [('angle', 'option Q')], 'unit'),
    '_exit_axis_rotation': ('method', [], 'unit'),
    'axis_rotation': ('ctx', [('angle', 'option Q')], 'unit'),
    'for_loop': ('ctx', [('var', 'option string'), ('num', 'option Z')], 'unit'),
    'repeat': ('ctx', [('num', 'option Z')], 'unit'),
    'tic': ('method', [], 'unit'),
    'toc': ('method', [], 'unit'),
    'programstop': ('method', [('task_id', 'Z')], 'unit'),
    'load_program': ('method', [('filename', 'ppath'), ('task_id', 'option Z')], 'unit'),
    'remove_program': ('method', [('filename', 'ppath'), ('task_id', 'Z')], 'unit'),
    'farcall': ('method', [('filename', 'ppath')], 'unit'),
    'bufferedcall': ('method', [('filename', 'ppath'), ('task_id', 'Z')], 'unit'),
    'write': ('method', [('points', 'list (list Q)')], 'unit'),
    '__enter__': ('method', [], 'unit'),
    '__exit__': ('method', [], 'unit'),
}
# callees that are not translated but defined by hand in Gen/PgmState.v:  name -> (coq name, monadic?, needs cfg?)
ORACLES = {
    '_get_filepath': ('get_filepath', True, False, ['filename', 'extension']),
    'transform_points': ('transform_points', False, True, ['x', 'y', 'z']),
    'close': ('close_file', True, False, []),
}
IGNORED_PARAMS = {'__exit__': {'exc_type', 'exc_value', 'traceback'}}
CFG_TYPE = 'pcfg'          # record of the attributes read through self.<attr>
EXTRA_PARAMS = ''          # binders in front of (c : CFG_TYPE) in every generated definition
MONAD = 'MP'               # monad of the generated definitions
RECEIVERS = {'self'}       # names whose method calls are calls of the translated methods
PGM_METHODS = None         # set below: the PGMCompiler table, for groups that call the compiler's API through a receiver
EXPR_HOOKS = []            # per-group expression translations tried first: hook(tr, node, env) -> (effects, term) | None
STMT_SKIP = []             # per-group statements that are deliberately not modelled: hook(stmt) -> bool
STMT_HOOKS = []            # per-group statement translations tried first: hook(tr, stmt, rest, env, tail) -> term | None
LOCAL_ELT = {}             # method -> {local list name: element type}: elements appended to it are coerced
ALLOW_CONTINUE = False     # `continue` in a for loop: ends the iteration with the values carried so far (switched on per group)

# ---- second group: small pure methods of other classes (Gen: PureSrc.v; equivalences: coq/tie/PureEquiv.v)
PURE_SPECS = [
    dict(out='SrcLp.v', file='laserpath.py', cls='LaserPath', cfg_type='lp_cfg', cfg_attrs={'speed', 'cmd_rate_max'},
         methods={'num_subdivisions': ('method', [('l_curve', 'Q'), ('speed', 'option Q')], 'Z')}, local_elt={}),
    dict(out='SrcNw.v', file='waveguide.py', cls='NasuWaveguide', cfg_type='nw_cfg', cfg_attrs={'adj_scan'},
         methods={'adj_scan_order': ('property', [], 'list Q')}, local_elt={'adj_scan_order': {'adj_scan_list': 'Q'}}),
    dict(out='SrcTc.v', file='trench.py', cls='TrenchColumn', cfg_type='tc_cfg',
         cfg_attrs={'bridge', 'beam_waist', 'round_corner', 'h_box', 'z_off', 'deltaz'},
         methods={'adj_bridge': ('property', [], 'Q'), 'n_repeat': ('property', [], 'Z')}, local_elt={}),
]
EXC = {'ValueError': 'EValue', 'FileNotFoundError': 'EFileNotFound', 'TypeError': 'EType', 'IndexError': 'EIndex'}

HEADER_WITH = ("With(items=[withitem(context_expr=Call(func=Name(id='open'), args=[BinOp(left=BinOp(left=Attribute("
               "value=Call(func=Attribute(value=Name(id='pathlib'), attr='Path'), args=[Name(id='__file__')], keywords=[]),"
               " attr='parent'), op=Div(), right=Constant(value='utils')), op=Div(), right=Name(id='header_name'))], "
               "keywords=[]), optional_vars=Name(id='f'))], body=[Expr(value=Call(func=Attribute(value=Attribute("
               "value=Name(id='self'), attr='_instructions'), attr='extend'), args=[Call(func=Attribute(value=Name(id='f'), "
               "attr='readlines'), args=[], keywords=[])], keywords=[]))])")
HEADER_NAME = ("JoinedStr(values=[Constant(value='header_'), FormattedValue(value=Call(func=Attribute(value=Attribute("
               "value=Name(id='self'), attr='laser'), attr='lower'), args=[], keywords=[]), conversion=-1), "
               "Constant(value='.txt')])")
DVAR_ARGS = ("Call(func=Attribute(value=Call(func=Attribute(value=Constant(value=' '), attr='join'), args=[BinOp(left=List("
             "elts=[Constant(value='${}')]), op=Mult(), right=Call(func=Name(id='len'), args=[Name(id='variables')], "
             "keywords=[]))], keywords=[]), attr='format'), args=[Starred(value=Name(id='variables'))], keywords=[])")
LISTCAST_FLATTEN = "Call(func=Name(id='listcast'), args=[Call(func=Name(id='flatten'), args=[Name(id='variables')], keywords=[])], keywords=[])"


def dump(n):
    return ast.dump(n, annotate_fields=True, include_attributes=False).replace(', ctx=Load()', '').replace(
        ', ctx=Store()', '').replace('ctx=Load()', '').replace(', kind=None', '')


def cname(s: str) -> str:
    return s + '_' if (s in KEYWORDS or s in METHODS) else s


def cstr(s: str) -> str:
    """Coq string expression for a Python str (newlines through the constant nl)."""
    parts = s.split('\n')
    out = []
    for i, p in enumerate(parts):
        if p:
            out.append('"' + p.replace('"', '""') + '"')
        if i < len(parts) - 1:
            out.append('nl')
    if not out:
        return '""'
    if len(out) == 1:
        return out[0]
    return '(' + ' ++ '.join(out) + ')'


def cq(x) -> str:
    fr = Fraction(repr(float(x))) if isinstance(x, float) else Fraction(x)
    return f'(({fr.numerator}) # {fr.denominator})%Q'


class Env:
    def __init__(self, meth, optvars=None, narrowed=None):
        self.meth = meth
        self.optvars = set(optvars or ())     # locals initialised with None: later values are wrapped in Some
        self.counter = [0]
        self.loop_ret = []
        self.params = []
        self.fundef = None

    def fresh(self, base='v'):
        self.counter[0] += 1
        return f'{base}__{self.counter[0]}'


class Tr:
    def __init__(self, classdef: ast.ClassDef, api_class: ast.ClassDef | None = None):
        self.defs = {n.name: n for n in classdef.body if isinstance(n, ast.FunctionDef)}
        self.api_defs = {n.name: n for n in api_class.body if isinstance(n, ast.FunctionDef)} if api_class is not None else {}

    # ------------------------------------------------------------------ expressions
    # returns (effects, term); effects = list of (var, monadic term) to bind before the term is evaluated

    def E(self, e, env) -> tuple[list, str]:
        for hook in EXPR_HOOKS:
            r = hook(self, e, env)
            if r is not None:
                return r
        k = type(e).__name__
        fn = getattr(self, 'E_' + k, None)
        if fn is None:
            raise Unsupported(f'expression {k}: {dump(e)[:200]}')
        return fn(e, env)

    def E_Constant(self, e, env):
        v = e.value
        if v is None:
            return [], 'None'
        if v is True:
            return [], 'true'
        if v is False:
            return [], 'false'
        if isinstance(v, int):
            return [], f'(of_int ({v}))'
        if isinstance(v, float):
            return [], cq(v)
        if isinstance(v, str):
            return [], cstr(v)
        raise Unsupported(f'constant {v!r}')

    def E_Name(self, e, env):
        return [], cname(e.id)

    def E_Attribute(self, e, env):
        if isinstance(e.value, ast.Name) and e.value.id == 'self':
            a = e.attr
            if a in CFG_ATTRS:
                return [], f'(cfg_{a} c)'
            if a in STATE_ATTRS:
                return [('st__', 'get')], f'({STATE_ATTRS[a]} st__)'
            if a in METHODS and METHODS[a][0] == 'property':
                v = env.fresh(a)
                return [(v, f'src_{a} c')], v
            raise Unsupported(f'attribute self.{a}')
        if e.attr in PATH_ATTRS:
            eff, t = self.E(e.value, env)
            return eff, f'({PATH_ATTRS[e.attr]} {t})'
        raise Unsupported(f'attribute {dump(e)[:120]}')

    def E_JoinedStr(self, e, env):
        effs, pieces = [], []
        for v in e.values:
            if isinstance(v, ast.Constant):
                pieces.append(f'PL {cstr(v.value)}')
            elif isinstance(v, ast.FormattedValue):
                if v.conversion != -1:
                    raise Unsupported('f-string conversion')
                eff, t = self.E(v.value, env)
                effs += eff
                if v.format_spec is None:
                    pieces.append(f'to_piece {t}')
                elif (len(v.format_spec.values) == 1 and isinstance(v.format_spec.values[0], ast.Constant)
                      and re.fullmatch(r'0\d', str(v.format_spec.values[0].value))):
                    pieces.append(f'PIpad {int(v.format_spec.values[0].value[1:])} (to_int {t})')
                else:
                    d = self.fixed_digits(v.format_spec, env)
                    pieces.append(f'PF {d} {t}')
            else:
                raise Unsupported('f-string part')
        return effs, '[' + '; '.join(pieces) + ']'

    def fixed_digits(self, spec, env) -> str:
        vals = spec.values
        if len(vals) == 1 and isinstance(vals[0], ast.Constant):
            s = vals[0].value
            if s.startswith('.') and s.endswith('f') and s[1:-1].isdigit():
                return f'({int(s[1:-1])})%Z'
        if (len(vals) == 3 and isinstance(vals[0], ast.Constant) and vals[0].value == '.'
                and isinstance(vals[2], ast.Constant) and vals[2].value == 'f' and isinstance(vals[1], ast.FormattedValue)
                and vals[1].format_spec is None):
            eff, t = self.E(vals[1].value, env)
            if eff:
                raise Unsupported('effect in format spec')
            return t
        raise Unsupported(f'format spec {dump(spec)}')

    def E_List(self, e, env):
        effs, ts = [], []
        for x in e.elts:
            eff, t = self.E(x, env)
            effs += eff
            ts.append(t)
        return effs, '[' + '; '.join(ts) + ']'

    E_Tuple = E_List

    def E_BoolOp(self, e, env):
        op = ' && ' if isinstance(e.op, ast.And) else ' || '
        effs, ts = [], []
        for x in e.values:
            eff, t = self.E(x, env)
            if eff and ts and any(v != 'st__' for v, _ in eff):
                raise Unsupported('effect after short-circuit')
            effs += eff
            ts.append(t)
        return effs, '(' + op.join(ts) + ')%bool'

    def E_UnaryOp(self, e, env):
        if isinstance(e.op, ast.Not):
            eff, t = self.E(e.operand, env)
            if isinstance(e.operand, (ast.Name, ast.Attribute)):
                t = f'(truthy {t})'
            return eff, f'(negb {t})'
        if isinstance(e.op, ast.USub):
            if isinstance(e.operand, ast.Constant) and isinstance(e.operand.value, (int, float)):
                return self.E_Constant(ast.Constant(value=-e.operand.value), env)
            eff, t = self.E(e.operand, env)
            return eff, f'(pyneg {t})'
        raise Unsupported('unary op')

    def E_BinOp(self, e, env):
        # 10 ** (-d)
        if (isinstance(e.op, ast.Pow) and isinstance(e.left, ast.Constant) and e.left.value == 10
                and isinstance(e.right, ast.UnaryOp) and isinstance(e.right.op, ast.USub)):
            eff, t = self.E(e.right.operand, env)
            return eff, f'(pow10_neg {t})'
        ops = {ast.Add: 'pyadd', ast.Sub: 'pysub', ast.Mult: 'pymul', ast.Mod: 'pymod', ast.Div: 'pydiv', ast.FloorDiv: 'pyfloordiv'}
        if type(e.op) not in ops:
            raise Unsupported(f'binary op {type(e.op).__name__}')
        e1, t1 = self.E(e.left, env)
        e2, t2 = self.E(e.right, env)
        return e1 + e2, f'({ops[type(e.op)]} {t1} {t2})'

    def E_Compare(self, e, env):
        if len(e.ops) != 1:
            raise Unsupported('chained comparison')
        op, l, r = e.ops[0], e.left, e.comparators[0]
        if isinstance(op, (ast.Is, ast.IsNot)):
            if not isinstance(r, ast.Constant) or r.value not in (None, True, False):
                raise Unsupported('is')
            eff, t = self.E(l, env)
            if r.value is None:
                res = f'(is_none {t})'
            elif r.value is True:
                res = f'(Bool.eqb {t} true)'
            else:
                res = f'(Bool.eqb {t} false)'
            return eff, (f'(negb {res})' if isinstance(op, ast.IsNot) else res)
        e1, t1 = self.E(l, env)
        e2, t2 = self.E(r, env)
        table = {ast.Eq: 'pyeq', ast.NotEq: 'pyne', ast.Lt: 'pylt', ast.LtE: 'pyle', ast.In: 'py_in'}
        if isinstance(op, ast.NotIn):
            return e1 + e2, f'(negb (py_in {t1} {t2}))'
        if isinstance(op, ast.Gt):
            return e1 + e2, f'(pylt {t2} {t1})'
        if isinstance(op, ast.GtE):
            return e1 + e2, f'(pyle {t2} {t1})'
        if type(op) not in table:
            raise Unsupported('comparison')
        return e1 + e2, f'({table[type(op)]} {t1} {t2})'

    def E_Subscript(self, e, env):
        if isinstance(e.slice, ast.Constant) and e.slice.value == 0:
            eff, t = self.E(e.value, env)
            v = env.fresh('first')
            return eff + [(v, f'(match {t} with [] => raise EIndex | x0__ :: _ => ret x0__ end)')], v
        if (isinstance(e.slice, ast.UnaryOp) and isinstance(e.slice.op, ast.USub) and isinstance(e.slice.operand, ast.Constant)
                and e.slice.operand.value == 1):
            eff, t = self.E(e.value, env)
            v = env.fresh('last')
            return eff + [(v, f'(match {t} with [] => raise EIndex | x0__ :: r__ => ret (List.last r__ x0__) end)')], v
        raise Unsupported('subscript')

    def E_IfExp(self, e, env):
        n = self.none_test(e.test)
        eb, tb = self.E(e.body, env)
        eo, to = self.E(e.orelse, env)
        if any(v != 'st__' for v, _ in eb + eo):
            raise Unsupported('effect in conditional expression')
        if n is not None:
            name, positive = n
            a, b = (tb, to) if positive else (to, tb)
            return eb + eo, f'(match {cname(name)} with None => {a} | Some {cname(name)} => {b} end)'
        et, tt = self.E(e.test, env)
        return et + eb + eo, f'(if {tt} then {tb} else {to})'

    @staticmethod
    def none_test(t):
        """`X is None` / `X is not None` with X a plain name -> (X, is_positive)"""
        if (isinstance(t, ast.Compare) and len(t.ops) == 1 and isinstance(t.left, ast.Name)
                and isinstance(t.comparators[0], ast.Constant) and t.comparators[0].value is None):
            if isinstance(t.ops[0], ast.Is):
                return t.left.id, True
            if isinstance(t.ops[0], ast.IsNot):
                return t.left.id, False
        return None

    def pattern(self, target) -> str:
        if isinstance(target, ast.Name):
            return cname(target.id)
        if isinstance(target, ast.Tuple):
            return "'(" + ', '.join(self.pattern(x).lstrip("'") for x in target.elts) + ')'
        raise Unsupported('comprehension target')

    def comprehension(self, elt, gens, env, as_forall=False):
        if len(gens) != 1 or gens[0].is_async:
            raise Unsupported('comprehension generators')
        g = gens[0]
        single = isinstance(g.target, ast.Name)
        ei, ti = self.E_iter(g.iter, env, single)
        if len(g.ifs) > 1:
            raise Unsupported('comprehension filters')
        if g.ifs:
            n = self.none_test(g.ifs[0])
            if n is None or n[1] or not single or n[0] != g.target.id:
                raise Unsupported('comprehension filter other than `if v is not None`')
            ti = f'(somes {ti})'
        ee, te = self.E(elt, env)
        pat = self.pattern(g.target)
        return ei, ee, te, pat, ti

    def E_iter(self, it, env, single):
        """iterable of a for / comprehension"""
        for hook in EXPR_HOOKS:
            r = hook(self, it, env)
            if r is not None:
                return r
        if isinstance(it, ast.Call):
            f = it.func
            fname = f.id if isinstance(f, ast.Name) else (f.attr if isinstance(f, ast.Attribute) else None)
            if fname == 'enumerate' and isinstance(f, ast.Name) and len(it.args) == 1 and not it.keywords:
                e1, t1 = self.E(it.args[0], env)
                return e1, f'(enumerate_ {t1})'
            if fname == 'range' and isinstance(f, ast.Name) and len(it.args) == 1 and not it.keywords:
                e1, t1 = self.E(it.args[0], env)
                return e1, f'(zrange (of_int 0) {t1})'
            if fname == 'range' and isinstance(f, ast.Name) and len(it.args) == 2 and not it.keywords:
                e1, t1 = self.E(it.args[0], env)
                e2, t2 = self.E(it.args[1], env)
                return e1 + e2, f'(zrange {t1} {t2})'
            if fname in ('zip', 'zip_longest') and not it.keywords:
                effs, ts = [], []
                for a in it.args:
                    eff, t = self.E(a, env)
                    effs += eff
                    ts.append(t)
                n = len(ts)
                if single:
                    if n != 3:
                        raise Unsupported('zip consumed through one name')
                    return effs, f'(zip3l {" ".join(ts)})'
                if n not in (2, 3, 4):
                    raise Unsupported('zip arity')
                return effs, f'(zip{n} {" ".join(ts)})'
        return self.E(it, env)

    def E_ListComp(self, e, env):
        ei, ee, te, pat, ti = self.comprehension(e.elt, e.generators, env)
        monadic = [x for x in ee if x[0] != 'st__']
        if monadic:
            # [f(a) for a in l] with f raising: mapM; the element term is rebuilt inside the function
            inner = self.wrap(ee, f'ret {te}')
            v = env.fresh('lst')
            return ei + [(v, f'mapM (fun {pat} => {inner}) {ti}')], v
        return ei + ee, f'(map (fun {pat} => {te}) {ti})'

    def E_GeneratorExp(self, e, env):
        raise Unsupported('bare generator expression')

    def E_Call(self, e, env):
        f = e.func
        # self.method(...) used as an expression
        if isinstance(f, ast.Attribute) and isinstance(f.value, ast.Name) and f.value.id == 'self':
            effs, term, monadic = self.self_call(f.attr, e, env)
            if monadic:
                v = env.fresh(f.attr.strip('_'))
                return effs + [(v, term)], v
            return effs, term
        if isinstance(f, ast.Attribute):
            if f.attr == 'lower' and not e.args:
                eff, t = self.E(f.value, env)
                return eff, f'(lower {t})'
            if f.attr == 'endswith' and len(e.args) == 1:
                e1, t1 = self.E(f.value, env)
                e2, t2 = self.E(e.args[0], env)
                return e1 + e2, f'(py_endswith {t1} {t2})'
            if f.attr == 'join' and isinstance(f.value, ast.Constant) and isinstance(f.value.value, str) and len(e.args) == 1:
                eff, t = self.E(e.args[0], env)
                return eff, f'[PJoin {cstr(f.value.value)} {t}]'
            if f.attr == 'fabs' and isinstance(f.value, ast.Name) and f.value.id == 'np' and len(e.args) == 1:
                eff, t = self.E(e.args[0], env)
                return eff, f'(Qabs {t})'
            if f.attr == 'size' and isinstance(f.value, ast.Name) and f.value.id == 'np' and len(e.args) == 1:
                eff, t = self.E(e.args[0], env)
                return eff, f'(py_len {t})'
            if f.attr == 'ceil' and isinstance(f.value, ast.Name) and f.value.id in ('np', 'math') and len(e.args) == 1:
                eff, t = self.E(e.args[0], env)
                return eff, f'(Qceiling {t})'
            if f.attr == 'isfinite' and isinstance(f.value, ast.Name) and f.value.id == 'math' and len(e.args) == 1:
                eff, t = self.E(e.args[0], env)
                return eff, f'(isfinite {t})'
            if f.attr == 'zip_longest':
                raise Unsupported('zip_longest outside a for')
        if isinstance(f, ast.Name):
            if dump(e) == LISTCAST_FLATTEN:
                return [], '(listcast_flatten variables)'
            if f.id == 'str' and len(e.args) == 1 and isinstance(e.args[0], ast.Name):
                return [], cname(e.args[0].id)          # str(path): the path value itself
            if f.id == 'abs' and len(e.args) == 1:
                eff, t = self.E(e.args[0], env)
                return eff, f'(pyabs {t})'
            if f.id == 'len' and len(e.args) == 1:
                eff, t = self.E(e.args[0], env)
                return eff, f'(py_len {t})'
            if f.id == 'float' and len(e.args) == 1:
                a = e.args[0]
                if isinstance(a, ast.Constant) and isinstance(a.value, (int, float)):
                    return [], cq(float(a.value))
                if isinstance(a, ast.JoinedStr):
                    # float(f'{v:.{d}f}'): the printed value
                    if len(a.values) == 1 and isinstance(a.values[0], ast.FormattedValue) and a.values[0].format_spec is not None:
                        d = self.fixed_digits(a.values[0].format_spec, env)
                        eff, t = self.E(a.values[0].value, env)
                        return eff, f'(float_of_fixed {d} {t})'
                    raise Unsupported('float of f-string')
                eff, t = self.E(a, env)
                return eff, f'(to_float {t})'
            if f.id == 'int' and len(e.args) == 1:
                eff, t = self.E(e.args[0], env)
                return eff, f'(to_int {t})'
            if f.id == 'all' and len(e.args) == 1 and isinstance(e.args[0], ast.GeneratorExp):
                g = e.args[0]
                ei, ee, te, pat, ti = self.comprehension(g.elt, g.generators, env)
                if any(v != 'st__' for v, _ in ee):
                    raise Unsupported('effect inside all()')
                return ei + ee, f'(forallb (fun {pat} => {te}) {ti})'
            if f.id == 'tuple' and len(e.args) == 1 and isinstance(e.args[0], ast.GeneratorExp):
                g = e.args[0]
                ei, ee, te, pat, ti = self.comprehension(g.elt, g.generators, env)
                if any(v != 'st__' for v, _ in ee):
                    raise Unsupported('effect inside tuple()')
                return ei + ee, f'(map (fun {pat} => {te}) {ti})'
        raise Unsupported(f'call {dump(e)[:200]}')

    def self_call(self, name, call, env):
        """self.<name>(...)  ->  (effects of the arguments, term, monadic?)"""
        odefs = {}
        if name in ORACLES:
            coq, monadic, needs_c, params = ORACLES[name][:4]
            odefs = ORACLES[name][4] if len(ORACLES[name]) > 4 else {}       # parameter -> Coq term used when the argument is omitted
            types = ORACLES[name][5] if len(ORACLES[name]) > 5 else [None] * len(params)
            defaults = {}
        elif name in METHODS:
            kind, sig, _ = METHODS[name]
            if kind == 'property':
                raise Unsupported('property called')
            coq, monadic, needs_c = f'src_{name}', True, True
            params = [p for p, _ in sig]
            types = [t for _, t in sig]
            d = self.defs.get(name) or self.api_defs[name]
            pos = [a.arg for a in d.args.args if a.arg != 'self']
            defaults = dict(zip(pos[len(pos) - len(d.args.defaults):], d.args.defaults))
        else:
            raise Unsupported(f'call of self.{name}')
        if len(call.args) == 1 and isinstance(call.args[0], ast.Starred) and not call.keywords and name in METHODS:
            # f(*seq): one case per possible length (more values than parameters: TypeError)
            if not isinstance(call.args[0].value, ast.Name):
                raise Unsupported('starred expression')
            seq = cname(call.args[0].value.id)
            vs = [env.fresh('a') for _ in params]
            dts = []
            for p in params:
                dflt = defaults.get(p)
                if not (isinstance(dflt, ast.Constant) and dflt.value is None):
                    raise Unsupported('starred call of a method without None defaults')
                dts.append('None')
            cases = []
            for k in range(len(params) + 1):
                cases.append(f"[{'; '.join(vs[:k])}] => {coq} c {' '.join(vs[:k] + dts[k:])}")
            return [], '(match ' + seq + ' with ' + ' | '.join(cases) + ' | _ => raise EType end)', True
        given = {}
        for i, a in enumerate(call.args):
            if i >= len(params):
                raise Unsupported(f'too many arguments for {name}')
            given[params[i]] = a
        for kw in call.keywords:
            if kw.arg not in params or kw.arg in given:
                raise Unsupported(f'keyword {kw.arg} for {name}')
            given[kw.arg] = kw.value
        effs, ts = [], []
        for p, ty in zip(params, types):
            a = given.get(p, defaults.get(p))
            if a is None and p in odefs:
                ts.append(odefs[p])
                continue
            if a is None:
                raise Unsupported(f'missing argument {p} of {name}')
            eff, t = self.coerce(a, ty, env)
            effs += eff
            ts.append(t)
        head = coq + (' c' if needs_c else '')
        term = head + ''.join(' ' + t for t in ts)
        return effs, (f'({term})' if ts or needs_c else term), monadic

    def coerce(self, a, ty, env):
        """argument expression for a parameter of declared type"""
        if ty is None:
            return self.E(a, env)
        if ty.startswith('option '):
            inner = ty[len('option '):]
            if isinstance(a, ast.Constant) and a.value is None:
                return [], 'None'
            if isinstance(a, ast.Constant) or (isinstance(a, ast.UnaryOp) and isinstance(a.op, ast.USub)
                                               and isinstance(a.operand, ast.Constant)):
                eff, t = self.coerce(a, inner, env)
                return eff, f'(Some {t})'
            eff, t = self.E(a, env)
            return eff, f'(as_opt {t})'
        if ty == 'asvec':            # an array argument that may be a one-element array read as its element
            eff, t = self.E(a, env)
            return eff, f'(as_vec {t})'
        if ty == 'list (option Q)' and not isinstance(a, (ast.List, ast.Tuple)):
            eff, t = self.E(a, env)
            return eff, f'(as_optlist {t})'
        if ty.startswith('list (') and isinstance(a, (ast.List, ast.Tuple)):
            inner = ty[len('list ('):-1]
            effs, ts = [], []
            for x in a.elts:
                eff, t = self.coerce(x, inner, env)
                effs += eff
                ts.append(t)
            return effs, '[' + '; '.join(ts) + ']'
        if ty == 'Q' and isinstance(a, ast.Constant) and isinstance(a.value, (int, float)) and not isinstance(a.value, bool):
            return [], cq(a.value)
        if ty == 'Q' and isinstance(a, ast.UnaryOp) and isinstance(a.op, ast.USub) and isinstance(a.operand, ast.Constant):
            return [], cq(-a.operand.value)
        if ty == 'Z' and isinstance(a, ast.Constant) and isinstance(a.value, int) and not isinstance(a.value, bool):
            return [], f'({a.value})%Z'
        if ty == 'line' and isinstance(a, ast.Constant) and isinstance(a.value, str):
            return [], f'[PL {cstr(a.value)}]'
        return self.E(a, env)

    # ------------------------------------------------------------------ statements

    @staticmethod
    def wrap(effs, term):
        seen = set()
        out = term
        for v, m in reversed(effs):
            out = f'{v} <- {m} ;; {out}'
        # several reads of the state in one statement: one binding is enough, but repeated ones are harmless
        return out

    def T(self, stmts, env, tail):
        """term of type M _ for the statement list followed by `tail` (a string)"""
        if not stmts:
            return tail
        s, rest = stmts[0], stmts[1:]
        if any(h(s) for h in STMT_SKIP):
            return self.T(rest, env, tail)
        for hook in STMT_HOOKS:
            r = hook(self, s, rest, env, tail)
            if r is not None:
                return r
        k = type(s).__name__
        fn = getattr(self, 'T_' + k, None)
        if fn is None:
            raise Unsupported(f'statement {k} in {env.meth}: {dump(s)[:200]}')
        return fn(s, rest, env, tail)

    def T_Pass(self, s, rest, env, tail):
        return self.T(rest, env, tail)

    def T_Return(self, s, rest, env, tail):
        if s.value is None or (isinstance(s.value, ast.Constant) and s.value.value is None):
            return 'ret tt'
        if isinstance(s.value, ast.Name) and s.value.id == 'self':
            return 'ret tt'
        eff, t = self.E(s.value, env)
        return self.wrap(eff, f'ret {t}')

    def T_Raise(self, s, rest, env, tail):
        exc = s.exc
        if isinstance(exc, ast.Call) and isinstance(exc.func, ast.Name) and exc.func.id in EXC:
            return f'raise {EXC[exc.func.id]}'
        raise Unsupported('raise')

    def T_Expr(self, s, rest, env, tail):
        v = s.value
        if isinstance(v, ast.Yield) and METHODS[env.meth][0] == 'generator' and v.value is not None:
            eff, t = self.E(v.value, env)
            return self.wrap(eff, f'emit_yield {t} ;;; {self.T(rest, env, tail)}')
        if isinstance(v, ast.Constant) and isinstance(v.value, str):      # docstring
            return self.T(rest, env, tail)
        if isinstance(v, ast.Call):
            f = v.func
            if isinstance(f, ast.Name) and f.id == 'print':
                return self.T(rest, env, tail)
            if isinstance(f, ast.Attribute) and isinstance(f.value, ast.Name) and f.value.id in RECEIVERS:
                effs, term, monadic = self.self_call(f.attr, v, env)
                if not monadic:
                    raise Unsupported('pure call as a statement')
                return self.wrap(effs, f'{term} ;;; {self.T(rest, env, tail)}')
            if (isinstance(f, ast.Attribute) and isinstance(f.value, ast.Attribute) and isinstance(f.value.value, ast.Name)
                    and f.value.value.id == 'self' and f.value.attr in STATE_ATTRS and len(v.args) == 1 and not v.keywords):
                attr, meth = f.value.attr, f.attr
                if attr == '_instructions':
                    eff, t = self.coerce(v.args[0], 'line', env)
                else:
                    eff, t = self.E(v.args[0], env)
                fld = STATE_ATTRS[attr]
                if attr == '_instructions' and meth == 'append':
                    act = f'instr_append {t}'
                elif attr == '_instructions' and meth == 'appendleft':
                    act = f'instr_appendleft {t}'
                elif attr != '_instructions' and meth == 'append':
                    act = f'modify (fun s__ => set_{fld} ({fld} s__ ++ [{t}]) s__)'
                elif attr in ('_loaded_files', '_dvars') and meth == 'extend':
                    act = f'modify (fun s__ => set_{fld} ({fld} s__ ++ {t}) s__)'
                elif attr != '_instructions' and meth == 'extend':
                    act = f'modify (fun s__ => set_{fld} ({fld} s__ ++ as_list {t}) s__)'
                elif attr == '_loaded_files' and meth == 'remove':
                    act = f'modify (fun s__ => set_{fld} (remove_first pyeq {t} ({fld} s__)) s__)'
                else:
                    raise Unsupported(f'self.{attr}.{meth}')
                return self.wrap(eff, f'{act} ;;; {self.T(rest, env, tail)}')
            # local list: args.append(e) / args.extend([e1, e2])
            if isinstance(f, ast.Attribute) and isinstance(f.value, ast.Name) and f.attr in ('append', 'extend') and len(v.args) == 1:
                n = cname(f.value.id)
                elt = LOCAL_ELT.get(env.meth, {}).get(f.value.id)
                items = [v.args[0]] if f.attr == 'append' else (v.args[0].elts if isinstance(v.args[0], ast.List) else None)
                if items is None:
                    # lst.extend(e) with e a list-valued expression
                    eff, t = self.E(v.args[0], env)
                    return self.wrap(eff, f'let {n} := ({n} ++ {t})%list in {self.T(rest, env, tail)}')
                effs, ts = [], []
                for it in items:
                    eff, t = self.E(it, env)
                    effs += eff
                    ts.append(f'(to_float {t})' if elt == 'Q' else t)
                return self.wrap(effs, f'let {n} := ({n} ++ [{"; ".join(ts)}])%list in {self.T(rest, env, tail)}')
        raise Unsupported(f'expression statement {dump(s)[:200]}')

    def T_Assign(self, s, rest, env, tail):
        if len(s.targets) != 1:
            raise Unsupported('multiple assignment')
        tg = s.targets[0]
        if isinstance(tg, ast.Attribute) and isinstance(tg.value, ast.Name) and tg.value.id == 'self' and tg.attr in STATE_ATTRS:
            eff, t = self.E(s.value, env)
            fld = STATE_ATTRS[tg.attr]
            return self.wrap(eff, f'modify (set_{fld} {t}) ;;; {self.T(rest, env, tail)}')
        if (isinstance(tg, ast.Name) and isinstance(s.value, ast.Call) and isinstance(s.value.func, ast.Attribute)
                and s.value.func.attr == 'pop' and isinstance(s.value.func.value, ast.Name) and len(s.value.args) == 1
                and isinstance(s.value.args[0], ast.Constant) and s.value.args[0].value == 0 and not s.value.keywords):
            lst = cname(s.value.func.value.id)      # x = lst.pop(0): IndexError on an empty list
            return f'match {lst} with [] => raise EIndex | {cname(tg.id)} :: {lst} => {self.T(rest, env, tail)} end'
        if isinstance(tg, ast.Name) and isinstance(s.value, ast.Call) and isinstance(s.value.func, ast.Name) and s.value.func.id == 'drained__':
            return f'let {cname(tg.id)} := drained {cname(tg.id)} in {self.T(rest, env, tail)}'      # made by T_While only
        if isinstance(tg, ast.Name):
            if dump(s.value) == DVAR_ARGS:
                return f'let {cname(tg.id)} := [PDvars variables] in {self.T(rest, env, tail)}'
            if tg.id == 'header_name' and dump(s.value) == HEADER_NAME:
                return self.T(rest, env, tail)
            if isinstance(s.value, ast.Constant) and s.value.value is None:
                env.optvars.add(tg.id)
                return f'let {cname(tg.id)} := None in {self.T(rest, env, tail)}'
            eff, t = self.E(s.value, env)
            elt = LOCAL_ELT.get(env.meth, {}).get(tg.id)
            if elt and isinstance(s.value, ast.List) and not s.value.elts:
                t = f'([] : list {elt})'
            if tg.id in env.optvars:
                t = f'(Some {t})'
            return self.wrap(eff, f'let {cname(tg.id)} := {t} in {self.T(rest, env, tail)}')
        if isinstance(tg, ast.Tuple) and all(isinstance(x, ast.Name) for x in tg.elts):
            names = [cname(x.id) for x in tg.elts]
            v = s.value
            for hook in EXPR_HOOKS:
                r = hook(self, v, env)
                if r is not None:
                    return self.wrap(r[0], f"let '({', '.join(names)}) := {r[1]} in {self.T(rest, env, tail)}")
            if (isinstance(v, ast.Call) and isinstance(v.func, ast.Attribute) and isinstance(v.func.value, ast.Name)
                    and v.func.value.id == 'self' and v.func.attr == 'transform_points'):
                effs, term, _ = self.self_call('transform_points', v, env)
                return self.wrap(effs, f"let '({', '.join(names)}) := {term} in {self.T(rest, env, tail)}")
            if isinstance(v, ast.Name):
                # unpacking a sequence of unknown length: ValueError unless the length matches
                return (f"match {cname(v.id)} with [{'; '.join(names)}] => {self.T(rest, env, tail)} "
                        f"| _ => raise EValue end")
        raise Unsupported(f'assignment {dump(s)[:200]}')

    def T_AugAssign(self, s, rest, env, tail):
        tg = s.target
        if (isinstance(s.op, ast.Add) and isinstance(tg, ast.Attribute) and isinstance(tg.value, ast.Name)
                and tg.value.id == 'self' and tg.attr == '_total_dwell_time'):
            eff, t = self.E(s.value, env)
            act = f'modify (fun s__ => set_total_dwell_time (fadd (total_dwell_time s__) {t}) s__)'
            return self.wrap(eff, f'{act} ;;; {self.T(rest, env, tail)}')
        raise Unsupported('augmented assignment')

    def T_If(self, s, rest, env, tail):
        body, orelse = s.body, s.orelse
        # a block that only prints has no effect on the program
        def only_prints(b):
            return all(isinstance(x, ast.Expr) and isinstance(x.value, ast.Call) and isinstance(x.value.func, ast.Name)
                       and x.value.func.id == 'print' for x in b)
        if only_prints(body) and not orelse:
            return self.T(rest, env, tail)
        saved = set(env.optvars)
        then_t = self.T(list(body) + rest, env, tail)
        env.optvars = set(saved)
        else_t = self.T(list(orelse) + rest, env, tail)
        env.optvars = saved
        test = s.test
        n = self.none_test(test)
        if n is not None:
            name, positive = n
            a, b = (then_t, else_t) if positive else (else_t, then_t)
            return f'match {cname(name)} with None => {a} | Some {cname(name)} => {b} end'
        if isinstance(test, ast.BoolOp) and isinstance(test.op, ast.Or):
            n = self.none_test(test.values[0])
            if n is not None and n[1]:
                name = n[0]
                others = test.values[1:]
                other = others[0] if len(others) == 1 else ast.BoolOp(op=ast.Or(), values=others)
                eff, t = self.E(other, env)
                inner = self.wrap(eff, f'if {t} then {then_t} else {else_t}')
                return f'match {cname(name)} with None => {then_t} | Some {cname(name)} => {inner} end'
        eff, t = self.E(test, env)
        if isinstance(test, (ast.Name, ast.Attribute, ast.BinOp)):
            t = f'(truthy {t})'
        return self.wrap(eff, f'if {t} then {then_t} else {else_t}')

    def T_For(self, s, rest, env, tail):
        if s.orelse:
            raise Unsupported('for-else')
        single = isinstance(s.target, ast.Name)
        ei, ti = self.E_iter(s.iter, env, single)
        skipped = {t.id for b in s.body for st in ast.walk(b) if isinstance(st, (ast.Assign, ast.AugAssign)) and any(h(st) for h in STMT_SKIP)
                   for t in ast.walk(st) if isinstance(t, ast.Name) and isinstance(t.ctx, ast.Store)}
        assigned = sorted({n.id for b in s.body for n in ast.walk(b) if isinstance(n, ast.Name) and isinstance(n.ctx, ast.Store)} - skipped)
        mutated = {n.func.value.id for b in s.body for n in ast.walk(b)
                   if isinstance(n, ast.Call) and isinstance(n.func, ast.Attribute) and isinstance(n.func.value, ast.Name)
                   and n.func.attr in ('append', 'extend') and n.func.value.id != 'self'}
        mutated |= {n.func.value.value.id for b in s.body for n in ast.walk(b)
                    if isinstance(n, ast.Call) and isinstance(n.func, ast.Attribute) and isinstance(n.func.value, ast.Subscript)
                    and isinstance(n.func.value.value, ast.Name) and n.func.attr in ('append', 'extend')}
        assigned = sorted(set(assigned) | mutated)
        popped = {n.func.value.id for b in s.body for n in ast.walk(b)
                  if isinstance(n, ast.Call) and isinstance(n.func, ast.Attribute) and isinstance(n.func.value, ast.Name)
                  and n.func.attr == 'pop' and n.func.value.id != 'self'}
        assigned = sorted(set(assigned) | popped)
        targets = {n.id for n in ast.walk(s.target) if isinstance(n, ast.Name)}
        # carried through the iterations: names (re)bound in the body that were already bound before the loop
        before = set(env.params) | {n.id for n in ast.walk(env.fundef) if isinstance(n, ast.Name) and isinstance(n.ctx, ast.Store)
                                    and n.lineno < s.lineno}
        # the target of a nested loop is bound by that loop before it is used: not a value carried through the iterations
        nested_targets = {n.id for b in s.body for st in ast.walk(b) if isinstance(st, ast.For) for n in ast.walk(st.target) if isinstance(n, ast.Name)}
        carried = [a for a in assigned if a not in targets and a in before and a not in nested_targets]
        has_break = any(isinstance(st, ast.Break) for st in ast.walk(ast.Module(body=s.body, type_ignores=[])))
        names = [cname(a) for a in carried] + (['brk__'] if has_break else [])
        cpat = '_' if not names else ("'(" + ', '.join(names) + ')' if len(names) > 1 else names[0])
        cval = 'tt' if not names else ('(' + ', '.join(names) + ')' if len(names) > 1 else names[0])
        for st in ast.walk(ast.Module(body=s.body, type_ignores=[])):
            if isinstance(st, ast.Return) or (isinstance(st, ast.Continue) and not ALLOW_CONTINUE) or (isinstance(st, ast.For) and has_break):
                raise Unsupported('return / continue (or a nested loop around a break) inside a for loop')
        env.loop_ret.append(cval)
        body_t = self.T(list(s.body), env, f'ret {cval}')
        env.loop_ret.pop()
        if has_break:
            body_t = f'if brk__ then ret {cval} else {body_t}'
        pat = self.pattern(s.target)
        init = cval if not has_break else ('(' + ', '.join([cname(a) for a in carried] + ['false']) + ')' if carried else 'false')
        loop = f'for_each {ti} {init} (fun {pat} {cpat} => {body_t})'
        binder = cpat if names else '_'
        return self.wrap(ei, f'bind ({loop}) (fun {binder} => {self.T(rest, env, tail)})')

    def T_While(self, s, rest, env, tail):
        # `while lst: x = lst.pop(0); body` with lst a local list the body does not touch: one iteration per element, in order,
        # and the list is empty afterwards (also when the body raises part-way: the list is a local of the call)
        if s.orelse or not isinstance(s.test, ast.Name) or not s.body:
            raise Unsupported('while loop')
        lst, first = s.test.id, s.body[0]
        ok = (isinstance(first, ast.Assign) and len(first.targets) == 1 and isinstance(first.targets[0], ast.Name)
              and dump(first.value) == f"Call(func=Attribute(value=Name(id='{lst}'), attr='pop'), args=[Constant(value=0)], keywords=[])")
        if not ok:
            raise Unsupported('while loop that does not start with x = lst.pop(0)')
        for b in s.body[1:]:
            for n in ast.walk(b):
                if isinstance(n, ast.Name) and n.id == lst:
                    raise Unsupported('while loop whose body uses the list it consumes')
                if isinstance(n, (ast.Break, ast.Continue, ast.Return)):
                    raise Unsupported('break / continue / return in a while loop')
        loop = ast.For(target=ast.Name(id=first.targets[0].id, ctx=ast.Store()), iter=ast.Name(id=lst, ctx=ast.Load()),
                       body=list(s.body[1:]) or [ast.Pass()], orelse=[])
        ast.copy_location(loop, s)
        ast.fix_missing_locations(loop)
        emptied = ast.Assign(targets=[ast.Name(id=lst, ctx=ast.Store())],
                             value=ast.Call(func=ast.Name(id='drained__', ctx=ast.Load()), args=[ast.Name(id=lst, ctx=ast.Load())], keywords=[]))
        ast.copy_location(emptied, s)
        ast.fix_missing_locations(emptied)
        return self.T_For(loop, [emptied] + list(rest), env, tail)

    def T_Continue(self, s, rest, env, tail):
        if not env.loop_ret or not ALLOW_CONTINUE:
            raise Unsupported('continue')
        return f'ret {env.loop_ret[-1]}'

    def T_Break(self, s, rest, env, tail):
        if not env.loop_ret:
            raise Unsupported('break outside a for loop')
        return f'let brk__ := true in ret {env.loop_ret[-1]}'

    def T_With(self, s, rest, env, tail):
        if dump(s) == HEADER_WITH:
            return f'extend_header (lower (cfg_laser c)) ;;; {self.T(rest, env, tail)}'
        if len(s.items) == 1 and s.items[0].optional_vars is None and isinstance(s.items[0].context_expr, ast.Call):
            call = s.items[0].context_expr
            f = call.func
            if (isinstance(f, ast.Attribute) and isinstance(f.value, ast.Name) and f.value.id in RECEIVERS
                    and f.attr in METHODS and METHODS[f.attr][0] == 'ctx'):
                effs, term, _ = self.self_call(f.attr, call, env)
                body = self.T(list(s.body), env, 'ret tt')
                return self.wrap(effs, f'{term[:-1]} ({body})) ;;; {self.T(rest, env, tail)}')
        raise Unsupported('with statement')

    def T_Try(self, s, rest, env, tail):
        if s.handlers or s.orelse or not s.finalbody:
            raise Unsupported('try with handlers')
        b = s.body
        if not (len(b) == 1 and isinstance(b[0], ast.Expr) and isinstance(b[0].value, ast.Yield)):
            raise Unsupported('try body other than a single yield')
        if METHODS[env.meth][0] != 'ctx':
            raise Unsupported('yield outside a context manager')
        fin = self.T(list(s.finalbody), env, 'ret tt')
        return f'try_finally body__ ({fin}) ;;; {self.T(rest, env, tail)}'

    # ------------------------------------------------------------------ definitions

    def method(self, name) -> str:
        kind, sig, rty = METHODS[name]
        d = self.defs.get(name)
        if d is None:
            raise Unsupported(f'method {name} not found')
        decos = [dump(x) for x in d.decorator_list]
        want = {'property': ["Name(id='property')"], 'method': [], 'generator': [], 'withbody': [],
                'ctx': ["Attribute(value=Name(id='contextlib'), attr='contextmanager')"]}[kind]
        if decos != want:
            raise Unsupported(f'decorators of {name}: {decos}')
        pos = [a.arg for a in d.args.args if a.arg != 'self' and a.arg not in IGNORED_PARAMS.get(name, ())]
        if kind == 'withbody':
            pos = [p for p, _ in sig]      # the body reads self.<attr> / the method's arguments, given as parameters by the spec
        if d.args.vararg or d.args.kwarg or d.args.kwonlyargs or pos != [p for p, _ in sig]:
            raise Unsupported(f'signature of {name}: {pos}')
        env = Env(name)
        env.defined = set(pos)
        env.params, env.fundef = pos, d
        # names defined before a loop: collected on the fly (assignments in order of appearance)
        for n in ast.walk(d):
            if isinstance(n, ast.Name) and isinstance(n.ctx, ast.Store):
                env.defined.add(n.id)
        stmts = list(d.body)
        if kind == 'withbody':
            ws = [st for st in d.body if isinstance(st, ast.With) and len(st.items) == 1
                  and re.fullmatch(r"Call\(func=Name\(id='PGMCompiler'\), args=\[\], keywords=\[keyword\(value=Name\(id='\w+'\)\)\]\)", dump(st.items[0].context_expr))
                  and isinstance(st.items[0].optional_vars, ast.Name) and st.items[0].optional_vars.id == 'G']
            if len(ws) != 1:
                raise Unsupported(f'{name}: expected exactly one `with PGMCompiler(**param) as G:` statement')
            stmts = list(ws[0].body)
        body = self.T(stmts, env, 'ret tt')
        params = ''.join(f' ({cname(p)} : {t})' for p, t in sig)
        if kind == 'ctx':
            params += ' (body__ : MP unit)'
        return f'Definition src_{name} {EXTRA_PARAMS}(c : {CFG_TYPE}){params} : {MONAD} ({rty}) :=\n  {body}.\n'


PREAMBLE = '''(* GENERATED by harness/py2coq.py from %s -- do not edit.
   One definition per translated method of femto.pgmcompiler.PGMCompiler, in the target language of
   Gen/PyPrelude.v / Gen/PgmState.v.  Gen/PgmEquiv.v relates each of them to the hand-written model Pgm/Ops.v. *)
From Coq Require Import List Bool ZArith NArith QArith Qabs String Ascii.
Import ListNotations.
From Femto Require Import Base.Num.
From FemtoTie Require Import PyPrelude PgmState.
Local Open Scope string_scope.
Local Open Scope list_scope.

%s

'''


def translate(src_path: str) -> str:
    text = pathlib.Path(src_path).read_text()
    mod = ast.parse(text)
    cls = [n for n in mod.body if isinstance(n, ast.ClassDef) and n.name == 'PGMCompiler']
    if len(cls) != 1:
        raise Unsupported('class PGMCompiler not found')
    tr = Tr(cls[0])
    out = [PREAMBLE % ('src/femto/pgmcompiler.py', '\n'.join(f'Notation cfg_{a} := {a}.' for a in sorted(CFG_ATTRS)))]
    for name in METHODS:
        out.append(tr.method(name))
        out.append('\n')
    return ''.join(out)


# ---- Trench.toolpath: the work list of the floor tool-path generator, with the geometry library as an oracle record `geom`
def _h_is_empty(tr, e, env):
    if isinstance(e, ast.Attribute) and e.attr == 'is_empty' and isinstance(e.value, ast.Name):
        return [], f'(g_is_empty G {cname(e.value.id)})'


def _h_inset(tr, e, env):
    # self.buffer_polygon(P, offset=-np.fabs(self.delta_floor))
    if (isinstance(e, ast.Call) and isinstance(e.func, ast.Attribute) and e.func.attr == 'buffer_polygon'
            and isinstance(e.func.value, ast.Name) and e.func.value.id == 'self' and len(e.args) == 1 and isinstance(e.args[0], ast.Name)
            and len(e.keywords) == 1 and e.keywords[0].arg == 'offset'
            and dump(e.keywords[0].value) == "UnaryOp(op=USub(), operand=Call(func=Attribute(value=Name(id='np'), attr='fabs'), "
                                             "args=[Attribute(value=Name(id='self'), attr='delta_floor')], keywords=[]))"):
        return [], f'(g_inset G {cname(e.args[0].id)})'


def _h_hatch(tr, e, env):
    # self.zigzag(P.buffer(1.05 * self.delta_floor))
    if (isinstance(e, ast.Call) and isinstance(e.func, ast.Attribute) and e.func.attr == 'zigzag'
            and isinstance(e.func.value, ast.Name) and e.func.value.id == 'self' and len(e.args) == 1 and not e.keywords):
        a = e.args[0]
        if (isinstance(a, ast.Call) and isinstance(a.func, ast.Attribute) and a.func.attr == 'buffer' and isinstance(a.func.value, ast.Name)
                and len(a.args) == 1 and not a.keywords
                and dump(a.args[0]) == "BinOp(left=Constant(value=1.05), op=Mult(), right=Attribute(value=Name(id='self'), attr='delta_floor'))"):
            pn = cname(a.func.value.id)
            return [], f'({pn}, g_hatch G {pn})'


def _h_size(tr, e, env):
    if isinstance(e, ast.Attribute) and e.attr == 'size' and isinstance(e.value, ast.Name):
        return [], f'(snd {cname(e.value.id)})'


def _h_contour(tr, e, env):
    # np.array(P.exterior.coords).T
    if isinstance(e, ast.Attribute) and e.attr == 'T' and isinstance(e.value, ast.Call):
        m = re.fullmatch(r"Call\(func=Attribute\(value=Name\(id='np'\), attr='array'\), args=\[Attribute\(value=Attribute\(value=Name\(id='(\w+)'\), "
                         r"attr='exterior'\), attr='coords'\)\], keywords=\[\]\)", dump(e.value))
        if m:
            return [], f'(YContour {cname(m.group(1))})'


def _skip_lengths(st):
    # length bookkeeping (self._wall_length / self._floor_length): property C09's subject, not part of the yield sequence
    tg = st.targets[0] if isinstance(st, ast.Assign) and len(st.targets) == 1 else (st.target if isinstance(st, ast.AugAssign) else None)
    return (isinstance(tg, ast.Attribute) and isinstance(tg.value, ast.Name) and tg.value.id == 'self'
            and tg.attr in ('_wall_length', '_floor_length'))


PURE_SPECS.append(
    dict(out='SrcTr.v', file='trench.py', cls='Trench', cfg_type='tr_cfg Poly', cfg_prefix='tr', cfg_attrs={'block', 'num_insets'},
         methods={'toolpath': ('generator', [], 'unit')}, local_elt={}, extra_params='{Poly : Type} (G : geom Poly) ', monad='MY Poly',
         expr_hooks=[_h_is_empty, _h_inset, _h_hatch, _h_size, _h_contour], stmt_skip=[_skip_lengths], imports='TrState', femto_imports=' Trench.Toolpath'))


# ---- WaveguideWriter.pgm / MarkerWriter.pgm: the program written inside `with PGMCompiler(**param) as G:`
def _w_objlist(tr, e, env):
    d = dump(e)
    if d == "Attribute(value=Name(id='self'), attr='obj_list')" or d == "Call(func=Name(id='flatten'), args=[Attribute(value=Name(id='self'), attr='obj_list')], keywords=[])":
        return [], 'obj_list'
    m = re.fullmatch(r"Call\(func=Name\(id='listcast'\), args=\[Name\(id='(\w+)'\)\], keywords=\[\]\)", d)
    if m:        # a group is a list of waveguides in the model (a bare waveguide is a one-element group)
        return [], cname(m.group(1))
    m = re.fullmatch(r"Attribute\(value=Subscript\(value=Call\(func=Name\(id='listcast'\), args=\[Name\(id='(\w+)'\)\], keywords=\[\]\), "
                     r"slice=Constant\(value=0\)\), attr='scan'\)", d)
    if m:        # listcast(bunch)[0].scan: IndexError on an empty group
        v = env.fresh('scan0')
        g = cname(m.group(1))
        return [(v, f'(match {g} with [] => raise EIndex | x0__ :: _ => ret (w_scan x0__) end)')], v
    m = re.fullmatch(r"Attribute\(value=Name\(id='(\w+)'\), attr='(scan|points)'\)", d)
    if m and m.group(1) not in ('self', 'G'):
        return [], (f'(w_scan {cname(m.group(1))})' if m.group(2) == 'scan' else f'(cols (w_pts {cname(m.group(1))}))')
    if isinstance(e, ast.JoinedStr):      # the text of a comment: only whether it is empty matters
        lits = ''.join(v.value for v in e.values if isinstance(v, ast.Constant))
        return [], cstr(lits)


_NW_COORD = ("Call(func=Attribute(value=Call(func=Attribute(value=Name(id='np'), attr='array'), args=[List(elts=[Name(id='dx'), Name(id='dy'), "
             "Name(id='dz'), Constant(value=0), Constant(value=0)])], keywords=[]), attr='reshape'), args=[UnaryOp(op=USub(), operand=Constant(value=1)), "
             "Constant(value=1)], keywords=[])")
_NW_SHIFTED = ("BinOp(left=Attribute(value=Name(id='nwg'), attr='points'), op=Add(), right=BinOp(left=Name(id='shift'), op=Mult(), "
               "right=Name(id='coord_shift')))")


def _w_nasu(tr, e, env):
    d = dump(e)
    if d == "Attribute(value=Name(id='nwg'), attr='adj_scan_order')":
        return [], '(nasu_order (n_adj nwg))'       # the translated property itself: SrcNw.v / EquivNw.v (entries in halves)
    if d == "Attribute(value=Name(id='nwg'), attr='adj_scan_shift')":
        return [], '(n_shift nwg)'
    if d == _NW_COORD:
        return [], '(dx, dy, dz)'                   # the column vector (dx, dy, dz, 0, 0): feed and shutter are not shifted
    if d == _NW_SHIFTED:
        return [], '(cols (map (shift_pt shift coord_shift) (n_pts nwg)))'      # points + shift * coord_shift, in float64


def _skip_fabtime(st):
    return isinstance(st, ast.AugAssign) and isinstance(st.target, ast.Name) and re.fullmatch(r'_\w+_fab_time', st.target.id) is not None


WRITER_SPEC = dict(out='SrcWr.v', imports='PureState LineTok PgmSrc PgmEquiv', femto_imports=' Pgm.Ops Writers.Writers', cfg_type='pcfg',
                   cfg_attrs=set(), local_elt={}, expr_hooks=[_w_nasu, _w_objlist], stmt_skip=[_skip_fabtime],
                   parts=[('WaveguideWriter', 'pgm', 'wg_body', [('obj_list', 'list (list wobj)')]),
                          ('MarkerWriter', 'pgm', 'mk_body', [('obj_list', 'list wobj')]),
                          ('NasuWriter', 'pgm', 'nwg_body', [('obj_list', 'list nobj')])])



# ---- TrenchWriter._farcall_trench_column: the program written inside `with PGMCompiler(<param>) as G:`
def _fmt03(name, suffix):
    return ("JoinedStr(values=[Constant(value='trench'), FormattedValue(value=BinOp(left=Name(id='i_trc'), op=Add(), right=Constant(value=1)), "
            "conversion=-1, format_spec=JoinedStr(values=[Constant(value='03')])), Constant(value='%s')])" % suffix)


def _colpath(fname):
    return ("BinOp(left=BinOp(left=Call(func=Attribute(value=Name(id='pathlib'), attr='Path'), args=[Attribute(value=Name(id='column'), "
            "attr='base_folder')], keywords=[]), op=Div(), right=JoinedStr(values=[Constant(value='trenchCol'), FormattedValue(value=BinOp("
            "left=Name(id='index'), op=Add(), right=Constant(value=1)), conversion=-1, format_spec=JoinedStr(values=[Constant(value='03')]))])), "
            "op=Div(), right=Name(id='%s'))" % fname)


_FC_EXPR = {
    # file names are built by string formatting / pathlib: given to the model as the paths of the block record
    _fmt03('wall', '_WALL.pgm'): '(sb_wall_n trench)',
    _fmt03('floor', '_FLOOR.pgm'): '(sb_floor_n trench)',
    _colpath('wall_filename'): '(sb_wall_f trench)',
    _colpath('floor_filename'): '(sb_floor_f trench)',
    # the first vertex of the outline at the level's starting depth, through the scalar branch of transform_points
    "Call(func=Attribute(value=Name(id='self'), attr='transform_points'), args=[Subscript(value=Attribute(value=Name(id='trench'), attr='xborder'), "
    "slice=Constant(value=0)), Subscript(value=Attribute(value=Name(id='trench'), attr='yborder'), slice=Constant(value=0)), Call(func=Attribute("
    "value=Name(id='np'), attr='array'), args=[BinOp(left=BinOp(left=Name(id='nbox'), op=Mult(), right=Attribute(value=Name(id='column'), attr='h_box')), "
    "op=Add(), right=Attribute(value=Name(id='column'), attr='z_off'))], keywords=[])], keywords=[])":
        '(init_point (abs_cfg c) (sb_first trench) (inject_Z nbox * sc_hbox column + sc_zoff column)%Q)',
    # deltaz / neff as femto computes it (a float division of two attributes)
    "BinOp(left=Attribute(value=Name(id='column'), attr='deltaz'), op=Div(), right=Attribute(value=Call(func=Name(id='super'), args=[], keywords=[]), attr='neff'))":
        '(sc_dz column)',
    "Attribute(value=Name(id='column'), attr='u')": '(sc_u column)',
    "Attribute(value=Name(id='column'), attr='speed_closed')": '(sc_speed_closed column)',
    "Attribute(value=Name(id='column'), attr='n_repeat')": '(sc_nrepeat column)',
    "Attribute(value=Attribute(value=Name(id='self'), attr='long_pause'))": None,
    # for nbox, (i_trc, trench) in list(itertools.product(range(column.nboxz), list(enumerate(column))))
    "Call(func=Name(id='list'), args=[Call(func=Attribute(value=Name(id='itertools'), attr='product'), args=[Call(func=Name(id='range'), args=[Attribute("
    "value=Name(id='column'), attr='nboxz')], keywords=[]), Call(func=Name(id='list'), args=[Call(func=Name(id='enumerate'), args=[Name(id='column')], "
    "keywords=[])], keywords=[])], keywords=[])], keywords=[])":
        '(product_ (zrange 0 (Z.of_nat (sc_nboxz column))) (enumerate_ (sc_blocks column)))',
}


def _h_fc(tr, e, env):
    d = dump(e)
    if d in _FC_EXPR and _FC_EXPR[d] is not None:
        return [], _FC_EXPR[d]
    if d == "Attribute(value=Name(id='self'), attr='long_pause')":
        return [], '(cfg_long_pause c)'
    if isinstance(e, ast.JoinedStr) and e.values and isinstance(e.values[0], ast.Constant) and str(e.values[0].value).startswith('+---'):
        return [], cstr('+--- COLUMN')        # the text of a comment: only whether it is empty matters


FARCALL_SPEC = dict(out='SrcFc.v', imports='PureState LineTok PgmSrc PgmEquiv FcState', femto_imports=' Geo.Rigid Pgm.Ops Trench.TreeProg',
                    cfg_type='pcfg', cfg_attrs={'long_pause'}, local_elt={}, expr_hooks=[_h_fc], stmt_skip=[],
                    parts=[('TrenchWriter', '_farcall_trench_column', 'farcall_body', [('column', 'scol'), ('index', 'Z')])])



# ---- append / extend of the five writers (C16): objects as dynamically typed items
_AE_KIND = {'Waveguide': 'KWg', 'NasuWaveguide': 'KNwg', 'TrenchColumn': 'KTc', 'UTrenchColumn': 'KUtc', 'Marker': 'KMk'}


def _h_ae(tr, e, env):
    if isinstance(e, ast.Call) and isinstance(e.func, ast.Name) and not e.keywords:
        if e.func.id == 'isinstance' and len(e.args) == 2 and isinstance(e.args[0], ast.Name) and isinstance(e.args[1], ast.Name):
            x, cls = cname(e.args[0].id), e.args[1].id
            if cls == 'list':
                return [], f'(is_grp {x})'
            if cls in _AE_KIND:
                return [], f'(isinst_item {x} {_AE_KIND[cls]})'
        if e.func.id == 'flatten' and len(e.args) == 1 and isinstance(e.args[0], ast.Name):
            return [], f'(flat_of {cname(e.args[0].id)})'
        if e.func.id == 'nest_level' and len(e.args) == 1 and isinstance(e.args[0], ast.Name):
            return [], f'(Z.of_nat (nest_of {cname(e.args[0].id)}))'


def _skip_ae(st):
    # the derived collections of the trench writers (trenches / beds of the columns) are not part of the routing property
    return (isinstance(st, ast.Expr) and isinstance(st.value, ast.Call) and isinstance(st.value.func, ast.Attribute)
            and st.value.func.attr == 'extend' and isinstance(st.value.func.value, ast.Attribute)
            and isinstance(st.value.func.value.value, ast.Name) and st.value.func.value.value.id == 'self'
            and st.value.func.value.attr in ('trenches', 'beds'))


AE_SPEC = dict(out='SrcAe.v', classes=[('TrenchWriter', 'tc'), ('UTrenchWriter', 'utc'), ('WaveguideWriter', 'wg'), ('NasuWriter', 'nwg'),
                                       ('MarkerWriter', 'mk')])


# ---- Device.append / extend / parse_objects (C16): the routing of dynamically typed items to the registered writers
_DEV_WRITER = {'WaveguideWriter': 'KWg', 'NasuWriter': 'KNwg', 'TrenchWriter': 'KTc', 'UTrenchWriter': 'KUtc', 'MarkerWriter': 'KMk'}
_DEV_TRY = ("Try(body=[Expr(value=Call(func=Attribute(value=Subscript(value=Attribute(value=Name(id='self'), attr='writers'), "
            "slice=Name(id='k')), attr='extend'), args=[Name(id='e')], keywords=[]))], handlers=[ExceptHandler(type=Name(id='KeyError'), "
            "name='err', body=[Raise(exc=Call(func=Name(id='TypeError'), args=[JoinedStr(values=[Constant(value='Found unexpected type '), "
            "FormattedValue(value=Attribute(value=Name(id='err'), attr='args'), conversion=-1), Constant(value='.')])], keywords=[]))])], "
            "orelse=[], finalbody=[])")


def _h_dev(tr, e, env):
    d = dump(e)
    if d == "Call(func=Attribute(value=Name(id='copy'), attr='copy'), args=[Call(func=Name(id='flatten'), args=[List(elts=[Name(id='obj')])], keywords=[])], keywords=[])":
        return [], '(flat [obj])'                                    # a new flat list of the leaves
    if d == "Call(func=Attribute(value=Name(id='copy'), attr='copy'), args=[Name(id='obj')], keywords=[])":
        return [], '(as_list obj)'                                   # a shallow copy of the list given
    if d == "Call(func=Attribute(value=Name(id='collections'), attr='defaultdict'), args=[Name(id='list')], keywords=[])":
        return [], '([] : list (key * list item))'
    if isinstance(e, ast.Call) and isinstance(e.func, ast.Name) and not e.keywords:
        if e.func.id == 'isinstance' and len(e.args) == 2 and isinstance(e.args[0], ast.Name) and dump(e.args[1]) == "Name(id='list')":
            return [], f'(is_grp {cname(e.args[0].id)})'
        if e.func.id == 'type' and len(e.args) == 1:
            eff, t = tr.E(e.args[0], env)
            return eff, f'(type_of {t})'
    if isinstance(e, ast.Subscript) and isinstance(e.value, ast.Name) and isinstance(e.slice, ast.Constant) and e.slice.value == 0:
        v = env.fresh('first')
        return [(v, f'(item_first {cname(e.value.id)})')], v      # obj[0] of a python list: IndexError when it is empty
    if d == "Call(func=Attribute(value=Name(id='d'), attr='items'), args=[], keywords=[])":
        return [], 'd'                                               # a dict iterates in insertion order


def _s_dev(tr, s, rest, env, tail):
    if dump(s) == _DEV_TRY:
        # self.writers[k].extend(e): the writer registered under exactly the type k; no such writer: KeyError -> TypeError
        return f'writers_extend src_writers k e ;;; {tr.T(rest, env, tail)}'
    if (isinstance(s, ast.Expr) and isinstance(s.value, ast.Call) and isinstance(s.value.func, ast.Attribute)
            and s.value.func.attr == 'append' and isinstance(s.value.func.value, ast.Subscript)
            and isinstance(s.value.func.value.value, ast.Name) and len(s.value.args) == 1 and not s.value.keywords):
        # d[key].append(x) on a defaultdict(list)
        dn = cname(s.value.func.value.value.id)
        ek, tk = tr.E(s.value.func.value.slice, env)
        ex, tx = tr.E(s.value.args[0], env)
        return tr.wrap(ek + ex, f'let {dn} := dict_append {tk} {tx} {dn} in {tr.T(rest, env, tail)}')


# ---- TrenchWriter.pgm / _export_trench_column / _farcall_trench_column (C06): which files are written, and which files the
# ---- programs load - names only (what the programs do is SrcFc.v)
_TN_PRODUCT = ("Call(func=Name(id='list'), args=[Call(func=Attribute(value=Name(id='itertools'), attr='product'), args=[Call(func=Name(id='range'), "
               "args=[Attribute(value=Name(id='column'), attr='nboxz')], keywords=[]), Call(func=Name(id='list'), args=[Call(func=Name(id='enumerate'), "
               "args=[Name(id='column')], keywords=[])], keywords=[])], keywords=[])], keywords=[])")
_TN_TOOLPATH = "Call(func=Name(id='enumerate'), args=[Call(func=Attribute(value=Name(id='trench'), attr='toolpath'), args=[], keywords=[])], keywords=[])"


def _h_tn(tr, e, env):
    d = dump(e)
    if d == "Attribute(value=Name(id='self'), attr='obj_list')":
        return [], '(tn_objs c)'
    if d == "Attribute(value=Name(id='self'), attr='_export_path')":
        return [], '(tn_export c)'
    if isinstance(e, ast.Attribute) and e.attr == 'base_folder' and isinstance(e.value, ast.Name):
        return [], f'(tn_base {cname(e.value.id)})'
    if isinstance(e, ast.BinOp) and isinstance(e.op, ast.Div):
        el, tl = tr.E(e.left, env)
        er, trr = tr.E(e.right, env)
        return el + er, f'(pjoin {tl} {trr})'
    if isinstance(e, ast.Call) and len(e.args) == 1 and not e.keywords and (dump(e.func) in ("Attribute(value=Name(id='pathlib'), attr='Path')", "Name(id='str')")):
        return tr.E(e.args[0], env)
    if isinstance(e, ast.Constant) and isinstance(e.value, str):
        return [], f'[PL {cstr(e.value)}]'
    if d == _TN_PRODUCT:
        return [], '(product_ (zrange 0 (Z.of_nat (tn_nboxz column))) (enumerate_ (tn_blocks column)))'
    if d == "Call(func=Name(id='enumerate'), args=[Name(id='column')], keywords=[])":
        return [], '(enumerate_ (tn_blocks column))'


def _tn_g_call(st):
    return (isinstance(st, ast.Expr) and isinstance(st.value, ast.Call) and isinstance(st.value.func, ast.Attribute)
            and isinstance(st.value.func.value, ast.Name) and st.value.func.value.id == 'G')


def _tn_noise(st):
    """statements that neither create a file nor load one"""
    if _tn_g_call(st):
        return st.value.func.attr not in ('load_program', 'farcall_list')
    if isinstance(st, ast.With) and len(st.items) == 1 and dump(st.items[0].context_expr).startswith("Call(func=Attribute(value=Name(id='G'), attr='repeat')"):
        return all(_tn_noise(b) for b in st.body)
    if isinstance(st, ast.If) and not st.orelse and dump(st.test) == "Attribute(value=Name(id='column'), attr='u')":
        return all(_tn_noise(b) for b in st.body)
    if isinstance(st, ast.If) and dump(st.test) == "Name(id='verbose')" and not st.orelse:
        # prints only: nothing may be stored under `if verbose` (C09: the estimate must not depend on the verbosity of this or an earlier export)
        if any(isinstance(n, (ast.Attribute, ast.Subscript, ast.Name)) and isinstance(n.ctx, (ast.Store, ast.Del)) for n in ast.walk(st)):
            raise Unsupported('something is stored under `if verbose`')
        return not any(isinstance(n, ast.Call) and isinstance(n.func, ast.Attribute) and n.func.attr in ('mkdir', 'export_array2d', 'load_program')
                       for n in ast.walk(st))
    if isinstance(st, ast.Assign) and len(st.targets) == 1:
        tg, v = st.targets[0], st.value
        if isinstance(tg, ast.Tuple) and (dump(v).startswith("Call(func=Attribute(value=Name(id='self'), attr='transform_points')")
                                          or dump(v) == "Attribute(value=Name(id='trench'), attr='border')"):
            return True
        if isinstance(tg, ast.Name) and isinstance(v, ast.Call) and dump(v.func).startswith("Attribute(value=Name(id='np')"):
            return True
        if isinstance(tg, ast.Name) and dump(v) == "Call(func=Name(id='dict'), args=[Call(func=Attribute(value=Attribute(value=Name(id='self'), attr='_param'), attr='copy'), args=[], keywords=[])], keywords=[])":
            return True
        if (isinstance(tg, ast.Subscript) and isinstance(tg.value, ast.Name) and isinstance(tg.slice, ast.Constant)
                and tg.slice.value in ('aerotech_angle', 'rotation_angle') and isinstance(v, ast.Constant) and v.value is None):
            return True
    # the time estimate (C12 / C09): a local `_<x>_fab_time` started at a constant, summed over the columns' own estimates, stored in self._fabtime
    if (isinstance(st, ast.Assign) and len(st.targets) == 1 and isinstance(st.targets[0], ast.Name) and re.fullmatch(r'_\w+_fab_time', st.targets[0].id)
            and isinstance(st.value, ast.Constant) and isinstance(st.value.value, float)):
        return True
    if re.fullmatch(r"Assign\(targets=\[Attribute\(value=Name\(id='self'\), attr='_fabtime'\)\], value=Name\(id='_\w+_fab_time'\)\)", dump(st)):
        return True
    if (isinstance(st, ast.For) and not st.orelse and dump(st.iter) == "Attribute(value=Name(id='self'), attr='obj_list')" and st.body
            and all(isinstance(b, ast.AugAssign) and isinstance(b.target, ast.Name) and re.fullmatch(r'_\w+_fab_time', b.target.id)
                    and not any(isinstance(n, ast.Call) for n in ast.walk(b)) for b in st.body)):
        return True
    if isinstance(st, ast.For) and dump(st.iter) == _TN_TOOLPATH:
        # the floor arrays: numpy only
        return not any(isinstance(n, ast.Call) and isinstance(n.func, ast.Attribute) and n.func.attr in ('mkdir', 'export_array2d', 'load_program')
                       for n in ast.walk(st))
    return False


def _s_tn(tr, s, rest, env, tail):
    if _tn_g_call(s) and s.value.func.attr == 'load_program' and len(s.value.args) == 1 and not s.value.keywords:
        eff, t = tr.E(s.value.args[0], env)
        return tr.wrap(eff, f'emit (ALoad {t}) ;;; {tr.T(rest, env, tail)}')
    if _tn_g_call(s) and s.value.func.attr == 'farcall_list' and len(s.value.args) == 1 and isinstance(s.value.args[0], ast.Name) and not s.value.keywords:
        return f'emit_loads {cname(s.value.args[0].id)} ;;; {tr.T(rest, env, tail)}'
    if isinstance(s, ast.Expr) and isinstance(s.value, ast.Call) and isinstance(s.value.func, ast.Attribute):
        f = s.value.func
        if f.attr == 'mkdir' and isinstance(f.value, ast.Name) and not s.value.args \
                and sorted((k.arg, dump(k.value)) for k in s.value.keywords) == [('exist_ok', 'Constant(value=True)'), ('parents', 'Constant(value=True)')]:
            return f'emit (AMkdir {cname(f.value.id)}) ;;; {tr.T(rest, env, tail)}'
        if f.attr == 'export_array2d' and dump(f.value) == "Name(id='self')" and not s.value.args:
            kw = {k.arg: k.value for k in s.value.keywords}
            if 'filename' not in kw:
                raise Unsupported('export_array2d without filename=')
            eff, t = tr.E(kw['filename'], env)
            return tr.wrap(eff, f'emit (AWrite {t}) ;;; {tr.T(rest, env, tail)}')
    if (isinstance(s, ast.Assign) and len(s.targets) == 1 and isinstance(s.targets[0], ast.Subscript) and isinstance(s.targets[0].value, ast.Name)
            and isinstance(s.targets[0].slice, ast.Constant) and s.targets[0].slice.value == 'filename'):
        eff, t = tr.E(s.value, env)
        return tr.wrap(eff, f'let {cname(s.targets[0].value.id)}__file := {t} in {tr.T(rest, env, tail)}')
    if isinstance(s, ast.With) and len(s.items) == 1:
        m = re.fullmatch(r"Call\(func=Name\(id='PGMCompiler'\), args=\[\], keywords=\[keyword\(value=Name\(id='(\w+)'\)\)\]\)", dump(s.items[0].context_expr))
        if m and dump(s.items[0].optional_vars) == "Name(id='G')":
            body = tr.T(list(s.body), env, 'ret tt')
            return f'emit (ABegin {cname(m.group(1))}__file) ;;; ({body}) ;;; emit AEnd ;;; {tr.T(rest, env, tail)}'


def translate_tree_names(src_dir: str) -> str:
    global METHODS, CFG_ATTRS, STATE_ATTRS, ORACLES, CFG_TYPE, LOCAL_ELT, EXTRA_PARAMS, MONAD, EXPR_HOOKS, STMT_SKIP, RECEIVERS, STMT_HOOKS
    saved = (METHODS, CFG_ATTRS, STATE_ATTRS, ORACLES, CFG_TYPE, LOCAL_ELT, EXTRA_PARAMS, MONAD, EXPR_HOOKS, STMT_SKIP, RECEIVERS, STMT_HOOKS)
    out = [PURE_PREAMBLE % ('writer.py', '', 'TnState')]
    try:
        mod = ast.parse(pathlib.Path(src_dir, 'writer.py').read_text())
        cls = [n for n in mod.body if isinstance(n, ast.ClassDef) and n.name == 'TrenchWriter']
        if len(cls) != 1:
            raise Unsupported('class TrenchWriter not found in writer.py')
        METHODS = {'_export_trench_column': ('method', [('column', 'tcol'), ('column_path', 'line')], 'unit'),
                   '_farcall_trench_column': ('method', [('column', 'tcol'), ('index', 'Z')], 'unit'),
                   'pgm': ('method', [('verbose', 'bool')], 'unit')}
        CFG_ATTRS, STATE_ATTRS, ORACLES = set(), {}, {}
        CFG_TYPE, LOCAL_ELT, EXTRA_PARAMS, MONAD = 'tn_cfg', {}, '', 'MT'
        EXPR_HOOKS, STMT_SKIP, RECEIVERS, STMT_HOOKS = [_h_tn], [_tn_noise], {'self'}, [_s_tn]
        tr = Tr(cls[0])
        for meth in METHODS:
            out.append(tr.method(meth).replace('src__', 'src_tn_').replace('src_pgm', 'src_tn_pgm'))
            out.append('\n')
    finally:
        METHODS, CFG_ATTRS, STATE_ATTRS, ORACLES, CFG_TYPE, LOCAL_ELT, EXTRA_PARAMS, MONAD, EXPR_HOOKS, STMT_SKIP, RECEIVERS, STMT_HOOKS = saved
    return ''.join(out)


# ---- Spreadsheet._get_structure_list (C18): which structures are listed, in which order
_SS_SORT = ("Expr(value=Call(func=Attribute(value=Name(id='wgstrucs'), attr='sort'), args=[], keywords=[keyword(arg='key', value=Lambda(args=arguments("
            "posonlyargs=[], args=[arg(arg='wg')], kwonlyargs=[], kw_defaults=[], defaults=[]), body=Subscript(value=Subscript(value=Attribute("
            "value=Name(id='wg'), attr='path3d'), slice=Constant(value=1)), slice=Constant(value=0))))]))")


def _h_ss(tr, e, env):
    d = dump(e)
    m = re.fullmatch(r"Call\(func=Name\(id='cast'\), args=\[Name\(id='(WaveguideWriter|MarkerWriter)'\), Subscript\(value=Attribute\(value=Name\(id='d'\), "
                     r"attr='writers'\), slice=Name\(id='(Waveguide|Marker)'\)\)\], keywords=\[\]\)", d)
    if m:
        if (m.group(1), m.group(2)) not in (('WaveguideWriter', 'Waveguide'), ('MarkerWriter', 'Marker')):
            raise Unsupported('writer looked up under another type')
        return [], ('(wr_wg d)' if m.group(2) == 'Waveguide' else '(wr_mk d)')
    if d == "Attribute(value=Name(id='self'), attr='device')":
        return [], '(ss_device c)'
    m = re.fullmatch(r"Call\(func=Name\(id='flatten'\), args=\[Attribute\(value=Name\(id='(\w+)'\), attr='obj_list'\)\], keywords=\[\]\)", d)
    if m:
        return [], f'(flat_objs {cname(m.group(1))})'
    if isinstance(e, ast.ListComp) and len(e.generators) == 1 and len(e.generators[0].ifs) == 1 and isinstance(e.elt, ast.Name) \
            and dump(e.generators[0].target) == dump(e.elt) and dump(e.generators[0].iter) == "Call(func=Name(id='flatten'), args=[Name(id='str_list')], keywords=[])":
        m = re.fullmatch(r"Call\(func=Name\(id='isinstance'\), args=\[Name\(id='%s'\), Name\(id='(Waveguide|Marker)'\)\], keywords=\[\]\)" % e.elt.id,
                         dump(e.generators[0].ifs[0]))
        if m:
            pred = 'is_waveguide' if m.group(1) == 'Waveguide' else 'is_marker'
            return [], f'(filter {pred} str_list)'
    if isinstance(e, ast.BinOp) and isinstance(e.op, ast.Add) and isinstance(e.left, ast.Name) and isinstance(e.right, ast.Name):
        return [], f'({cname(e.left.id)} ++ {cname(e.right.id)})%list'


def _s_ss(tr, s, rest, env, tail):
    if isinstance(s, ast.Assert):
        return tr.T(rest, env, tail)
    if dump(s) == _SS_SORT:
        # list.sort(key=...) is stable; the key is the first open-shutter y
        return f'let wgstrucs := sort_by_first_y wgstrucs in {tr.T(rest, env, tail)}'


def translate_sheet(src_dir: str) -> str:
    global METHODS, CFG_ATTRS, STATE_ATTRS, ORACLES, CFG_TYPE, LOCAL_ELT, EXTRA_PARAMS, MONAD, EXPR_HOOKS, STMT_SKIP, RECEIVERS, STMT_HOOKS
    saved = (METHODS, CFG_ATTRS, STATE_ATTRS, ORACLES, CFG_TYPE, LOCAL_ELT, EXTRA_PARAMS, MONAD, EXPR_HOOKS, STMT_SKIP, RECEIVERS, STMT_HOOKS)
    out = [PURE_PREAMBLE % ('spreadsheet.py', ' Sheet.Table', 'SsState')]
    try:
        mod = ast.parse(pathlib.Path(src_dir, 'spreadsheet.py').read_text())
        cls = [n for n in mod.body if isinstance(n, ast.ClassDef) and n.name == 'Spreadsheet']
        if len(cls) != 1:
            raise Unsupported('class Spreadsheet not found')
        METHODS = {'_get_structure_list': ('method', [('str_list', 'option (list strct)')], 'list strct')}
        CFG_ATTRS, STATE_ATTRS, ORACLES = set(), {}, {}
        CFG_TYPE, LOCAL_ELT, EXTRA_PARAMS, MONAD = 'ss_cfg', {}, '', 'MS'
        EXPR_HOOKS, STMT_SKIP, RECEIVERS, STMT_HOOKS = [_h_ss], [], {'self'}, [_s_ss]
        out.append(Tr(cls[0]).method('_get_structure_list').replace('src__get_structure_list', 'src_get_structure_list') + '\n')
    finally:
        METHODS, CFG_ATTRS, STATE_ATTRS, ORACLES, CFG_TYPE, LOCAL_ELT, EXTRA_PARAMS, MONAD, EXPR_HOOKS, STMT_SKIP, RECEIVERS, STMT_HOOKS = saved
    return ''.join(out)


# ---- LaserPath.export / helpers.load_parameters (C19): where a file is written / read, how DEFAULT is merged
_PA_OPEN_W = "With(items=[withitem(context_expr=Call(func=Name(id='open'), args=[Name(id='fn'), Constant(value='wb')], keywords=[]), optional_vars=Name(id='p'))]"
_PA_OPEN_R = ("With(items=[withitem(context_expr=Call(func=Name(id='open'), args=[Name(id='fp')], keywords=[keyword(arg='mode', value=Constant(value='rb'))]), "
              "optional_vars=Name(id='f'))], body=[Assign(targets=[Name(id='config')], value=Call(func=Attribute(value=Name(id='yaml'), "
              "attr='safe_load'), args=[Name(id='f')], keywords=[]))])")
_PA_POP = ("Try(body=[Assign(targets=[Name(id='default_dict')], value=Call(func=Attribute(value=Name(id='config'), attr='pop'), "
           "args=[Constant(value='DEFAULT')], keywords=[]))], handlers=[ExceptHandler(type=Name(id='KeyError'), body=[Assign(targets=["
           "Name(id='default_dict')], value=Dict(keys=[], values=[]))])], orelse=[], finalbody=[])")
_PA_DUMP = ("[If(test=Name(id='as_dict'), body=[Expr(value=Call(func=Attribute(value=Name(id='dill'), attr='dump'), args=[Attribute(value=Name(id='self'), "
            "attr='__dict__'), Name(id='p')], keywords=[]))], orelse=[Expr(value=Call(func=Attribute(value=Name(id='dill'), attr='dump'), "
            "args=[Name(id='self'), Name(id='p')], keywords=[]))])")


def _h_pa(tr, e, env):
    if isinstance(e, ast.Call) and not e.keywords and len(e.args) == 1:
        if dump(e.func) == "Attribute(value=Name(id='pathlib'), attr='Path')":
            eff, t = tr.E(e.args[0], env)
            return eff, f'(path_of {t})'
        if isinstance(e.func, ast.Attribute) and e.func.attr == 'with_suffix' and isinstance(e.func.value, ast.Name) \
                and isinstance(e.args[0], ast.Constant) and isinstance(e.args[0].value, str):
            return [], f'(p_with_suffix {cname(e.func.value.id)} {cstr(e.args[0].value)})'
        if isinstance(e.func, ast.Name) and e.func.id == 'dict' and isinstance(e.args[0], ast.Subscript) \
                and isinstance(e.args[0].value, ast.Name) and isinstance(e.args[0].slice, ast.Name):
            v = env.fresh('item')
            return [(v, f'(doc_get {cname(e.args[0].value.id)} {cname(e.args[0].slice.id)})')], f'(dict_copy {v})'
    if isinstance(e, ast.Attribute) and e.attr == 'suffix' and isinstance(e.value, ast.Name):
        return [], f'(p_suffix {cname(e.value.id)})'
    if isinstance(e, ast.Call) and isinstance(e.func, ast.Attribute) and e.func.attr == 'keys' and isinstance(e.func.value, ast.Name) \
            and not e.args and not e.keywords:
        return [], f'(dkeys {cname(e.func.value.id)})'
    if isinstance(e, ast.Dict) and len(e.keys) == 2 and e.keys == [None, None] and all(isinstance(v, ast.Name) for v in e.values):
        return [], f'(dict_merge {cname(e.values[0].id)} {cname(e.values[1].id)})'          # {**a, **b}


def _s_pa(tr, s, rest, env, tail):
    d = dump(s)
    if d.startswith(_PA_OPEN_W) and isinstance(s, ast.With):
        body = '[' + dump(s.body[0])
        if not (body == _PA_DUMP and len(s.body) == 2 and dump(s.body[1]).startswith("Expr(value=Call(func=Name(id='print')")):
            raise Unsupported('LaserPath.export: body of `with open(fn, "wb")`')
        return f'open_write fn ;;; {tr.T(rest, env, tail)}'
    if d == _PA_OPEN_R:
        return f'config <- yaml_load fs__ fp ;; {tr.T(rest, env, tail)}'
    if d == _PA_POP:
        return f"let '(default_dict, config) := pop_default_key config in {tr.T(rest, env, tail)}"


def translate_persist(src_dir: str) -> str:
    global METHODS, CFG_ATTRS, STATE_ATTRS, ORACLES, CFG_TYPE, LOCAL_ELT, EXTRA_PARAMS, MONAD, EXPR_HOOKS, STMT_SKIP, RECEIVERS, STMT_HOOKS
    saved = (METHODS, CFG_ATTRS, STATE_ATTRS, ORACLES, CFG_TYPE, LOCAL_ELT, EXTRA_PARAMS, MONAD, EXPR_HOOKS, STMT_SKIP, RECEIVERS, STMT_HOOKS)
    out = [PURE_PREAMBLE % ('laserpath.py, helpers.py', ' Persist.Paths', 'PaState')]
    try:
        CFG_ATTRS, STATE_ATTRS, ORACLES = set(), {}, {}
        CFG_TYPE, LOCAL_ELT, MONAD = 'unit', {}, 'MPa'
        EXPR_HOOKS, STMT_SKIP, RECEIVERS, STMT_HOOKS = [_h_pa], [], {'self'}, [_s_pa]
        mod = ast.parse(pathlib.Path(src_dir, 'laserpath.py').read_text())
        cls = [n for n in mod.body if isinstance(n, ast.ClassDef) and n.name == 'LaserPath']
        if len(cls) != 1:
            raise Unsupported('class LaserPath not found')
        METHODS, EXTRA_PARAMS = {'export': ('method', [('filename', 'string'), ('as_dict', 'bool')], 'unit')}, ''
        out.append(Tr(cls[0]).method('export') + '\n')
        mod = ast.parse(pathlib.Path(src_dir, 'helpers.py').read_text())
        funs = [n for n in mod.body if isinstance(n, ast.FunctionDef) and n.name == 'load_parameters']
        if len(funs) != 1:
            raise Unsupported('helpers.load_parameters not found')
        METHODS, EXTRA_PARAMS = {'load_parameters': ('method', [('param_file', 'string')], 'list dict')}, '(fs__ : string -> option doc) '
        out.append(Tr(ast.ClassDef(name='helpers', bases=[], keywords=[], body=funs, decorator_list=[])).method('load_parameters') + '\n')
        # from_dict of LaserPath and TrenchColumn (PGMCompiler.from_dict passes the dictionary on unfiltered): cls(**{k: v for k, v in param.items() if k in inspect.signature(cls).parameters})
        for fname, cname_, tag in (('laserpath.py', 'LaserPath', 'lp'), ('trench.py', 'TrenchColumn', 'tc')):
            mod = ast.parse(pathlib.Path(src_dir, fname).read_text())
            cls = [n for n in mod.body if isinstance(n, ast.ClassDef) and n.name == cname_]
            fd = [n for n in (cls[0].body if cls else []) if isinstance(n, ast.FunctionDef) and n.name == 'from_dict']
            if len(fd) != 1:
                raise Unsupported(f'{cname_}.from_dict not found')
            f = fd[0]
            body = [st for st in f.body if not (isinstance(st, ast.Expr) and isinstance(st.value, ast.Constant) and isinstance(st.value.value, str))]
            if ([dump(x) for x in f.decorator_list] != ["Name(id='classmethod')"] or [a.arg for a in f.args.args] != ['cls', 'param']
                    or f.args.vararg or f.args.kwarg or f.args.kwonlyargs or len(body) != 1 or not isinstance(body[0], ast.Return)):
                raise Unsupported(f'{cname_}.from_dict: signature / shape')
            r = body[0].value
            ok = (isinstance(r, ast.Call) and dump(r.func) == "Name(id='cls')" and not r.args and len(r.keywords) == 1 and r.keywords[0].arg is None
                  and isinstance(r.keywords[0].value, ast.DictComp))
            if ok:
                dc = r.keywords[0].value
                g = dc.generators
                ok = (len(g) == 1 and not g[0].is_async and isinstance(dc.key, ast.Name) and isinstance(dc.value, ast.Name)
                      and dump(g[0].target) == f"Tuple(elts=[Name(id='{dc.key.id}'), Name(id='{dc.value.id}')])"
                      and dump(g[0].iter) == "Call(func=Attribute(value=Name(id='param'), attr='items'), args=[], keywords=[])"
                      and len(g[0].ifs) == 1
                      and dump(g[0].ifs[0]) == (f"Compare(left=Name(id='{dc.key.id}'), ops=[In()], comparators=[Attribute(value=Call(func=Attribute("
                                                "value=Name(id='inspect'), attr='signature'), args=[Name(id='cls')], keywords=[]), attr='parameters')])"))
            if not ok:
                raise Unsupported(f'{cname_}.from_dict: {dump(r)[:200]}')
            out.append(f"(* {cname_}.from_dict: the keyword arguments the constructor is called with; sig__ = inspect.signature(cls).parameters *)\n"
                       f"Definition src_from_dict_{tag} (sig__ : list string) (param : dict) : dict :=\n"
                       f"  filter (fun kv => existsb (String.eqb (fst kv)) sig__) param.\n\n")
    finally:
        METHODS, CFG_ATTRS, STATE_ATTRS, ORACLES, CFG_TYPE, LOCAL_ELT, EXTRA_PARAMS, MONAD, EXPR_HOOKS, STMT_SKIP, RECEIVERS, STMT_HOOKS = saved
    return ''.join(out)


# ---- PGMCompiler.close (C19 / C08): which file is written, which directory is created first
_CL_MKDIR = ("If(test=UnaryOp(op=Not(), operand=Call(func=Attribute(value=Name(id='exp_dir'), attr='is_dir'), args=[], keywords=[])), body=[Expr(value=Call(func=Attribute("
             "value=Name(id='exp_dir'), attr='mkdir'), args=[], keywords=[keyword(arg='parents', value=Constant(value=True)), keyword(arg='exist_ok', value=Constant(value=True))]))], orelse=[])")
_CL_WRITE = ("With(items=[withitem(context_expr=Call(func=Name(id='open'), args=[Name(id='pgm_filename'), Constant(value='w')], keywords=[]), optional_vars=Name(id='f'))], "
             "body=[Expr(value=Call(func=Attribute(value=Name(id='f'), attr='write'), args=[Call(func=Attribute(value=Constant(value=''), attr='join'), args=[Attribute("
             "value=Name(id='self'), attr='_instructions')], keywords=[])], keywords=[]))])")
_CL_CLEAR = re.compile(r"Expr\(value=Call\(func=Attribute\(value=Attribute\(value=Name\(id='self'\), attr='(_instructions|_dvars)'\), attr='clear'\), args=\[\], keywords=\[\]\)\)")


def _h_cl(tr, e, env):
    r = _h_pa(tr, e, env)
    if r is not None:
        return r
    if isinstance(e, ast.BinOp) and isinstance(e.op, ast.Div) and isinstance(e.left, ast.Name) and isinstance(e.right, ast.Name):
        return [], f'(pjoin {cname(e.left.id)} {cname(e.right.id)})'
    return None


def _s_cl(tr, s, rest, env, tail):
    d = dump(s)
    if d == _CL_MKDIR:
        return f'(if is_dir__ exp_dir then ret tt else cl_mkdirs exp_dir) ;;; {tr.T(rest, env, tail)}'
    if d == _CL_WRITE:
        return f'cl_open pgm_filename ;;; {tr.T(rest, env, tail)}'
    if _CL_CLEAR.fullmatch(d):
        return tr.T(rest, env, tail)          # the compiler's own bookkeeping at close: Pgm/Reuse.after_close (C03)
    if isinstance(s, (ast.With, ast.Try)):
        raise Unsupported('with / try statement in close()')
    return None


def translate_close(src_dir: str) -> str:
    global METHODS, CFG_ATTRS, STATE_ATTRS, ORACLES, CFG_TYPE, LOCAL_ELT, EXTRA_PARAMS, MONAD, EXPR_HOOKS, STMT_SKIP, RECEIVERS, STMT_HOOKS
    saved = (METHODS, CFG_ATTRS, STATE_ATTRS, ORACLES, CFG_TYPE, LOCAL_ELT, EXTRA_PARAMS, MONAD, EXPR_HOOKS, STMT_SKIP, RECEIVERS, STMT_HOOKS)
    out = []
    try:
        mod = ast.parse(pathlib.Path(src_dir, 'pgmcompiler.py').read_text())
        cls = [n for n in mod.body if isinstance(n, ast.ClassDef) and n.name == 'PGMCompiler']
        if len(cls) != 1:
            raise Unsupported('class PGMCompiler not found')
        METHODS = {'close': ('method', [('filename', 'option string'), ('verbose', 'bool')], 'unit')}
        CFG_ATTRS, STATE_ATTRS, ORACLES = {'filename', 'export_dir'}, {}, {}
        CFG_TYPE, LOCAL_ELT, EXTRA_PARAMS, MONAD = 'cl_cfg', {}, '(is_dir__ : string -> bool) ', 'MCl'
        EXPR_HOOKS, STMT_SKIP, RECEIVERS, STMT_HOOKS = [_h_cl], [], {'self'}, [_s_cl]
        out.append('(* PGMCompiler.close, from pgmcompiler.py *)\nNotation cfg_filename := cl_filename.\nNotation cfg_export_dir := cl_export_dir.\n\n')
        out.append(Tr(cls[0]).method('close') + '\n')
    finally:
        METHODS, CFG_ATTRS, STATE_ATTRS, ORACLES, CFG_TYPE, LOCAL_ELT, EXTRA_PARAMS, MONAD, EXPR_HOOKS, STMT_SKIP, RECEIVERS, STMT_HOOKS = saved
    return ''.join(out)


# ---- helpers.flatten / helpers.nest_level (C16): recursive functions, translated with the recursive call as a parameter
_HL_ISLIST = ("BoolOp(op=And(), values=[Call(func=Name(id='isinstance'), args=[Name(id='x'), Tuple(elts=[Name(id='list'), Name(id='tuple')])], "
              "keywords=[]), UnaryOp(op=Not(), operand=Call(func=Name(id='isinstance'), args=[Name(id='x'), Tuple(elts=[Name(id='str'), "
              "Name(id='bytes')])], keywords=[]))])")


def _h_hl(tr, e, env):
    d = dump(e)
    if d == _HL_ISLIST:
        return [], '(is_grp x)'          # tuples / strings are not items of the model
    if isinstance(e, ast.Call) and isinstance(e.func, ast.Name) and not e.keywords:
        if e.func.id == 'isinstance' and len(e.args) == 2 and isinstance(e.args[0], ast.Name) and dump(e.args[1]) == "Name(id='list')":
            return [], f'(is_grp {cname(e.args[0].id)})'
        if e.func.id == env.meth and len(e.args) == 1 and isinstance(e.args[0], ast.Name):
            v = env.fresh('rec')         # the recursive call
            arg = cname(e.args[0].id)
            return [(v, f'(rec__ {"(as_list " + arg + ")" if env.meth == "flatten" else arg})')], v
        if (e.func.id == 'max' and len(e.args) == 1 and isinstance(e.args[0], ast.GeneratorExp) and len(e.args[0].generators) == 1
                and isinstance(e.args[0].generators[0].iter, ast.Name) and isinstance(e.args[0].generators[0].target, ast.Name)
                and not e.args[0].generators[0].ifs):
            g = e.args[0].generators[0]
            ee, te = tr.E(e.args[0].elt, env)
            vs, v = env.fresh('vals'), env.fresh('max')
            inner = tr.wrap(ee, f'ret {te}')
            return [(vs, f'mapM (fun {cname(g.target.id)} => {inner}) (as_list {cname(g.iter.id)})'), (v, f'(max_of {vs})')], v


def translate_helpers(src_dir: str) -> str:
    global METHODS, CFG_ATTRS, STATE_ATTRS, ORACLES, CFG_TYPE, LOCAL_ELT, EXTRA_PARAMS, MONAD, EXPR_HOOKS, STMT_SKIP, RECEIVERS, STMT_HOOKS
    saved = (METHODS, CFG_ATTRS, STATE_ATTRS, ORACLES, CFG_TYPE, LOCAL_ELT, EXTRA_PARAMS, MONAD, EXPR_HOOKS, STMT_SKIP, RECEIVERS, STMT_HOOKS)
    out = [PURE_PREAMBLE % ('helpers.py', ' Writers.Device', 'AeState')]
    try:
        mod = ast.parse(pathlib.Path(src_dir, 'helpers.py').read_text())
        funs = [n for n in mod.body if isinstance(n, ast.FunctionDef) and n.name in ('flatten', 'nest_level')]
        if len(funs) != 2:
            raise Unsupported('helpers.py: flatten / nest_level not found')
        tr = Tr(ast.ClassDef(name='helpers', bases=[], keywords=[], body=funs, decorator_list=[]))
        CFG_ATTRS, STATE_ATTRS, ORACLES = set(), {}, {}
        CFG_TYPE, LOCAL_ELT, MONAD = 'unit', {'flatten': {'flat': 'item'}}, 'MI'
        EXPR_HOOKS, STMT_SKIP, RECEIVERS, STMT_HOOKS = [_h_hl], [], {'self'}, []
        for name, sig, rty, rec in (('flatten', [('items', 'list item')], 'list item', 'list item -> MI (list item)'),
                                    ('nest_level', [('lst', 'item')], 'Z', 'item -> MI Z')):
            METHODS = {name: ('method', sig, rty)}
            EXTRA_PARAMS = f'(rec__ : {rec}) '
            out.append(tr.method(name))
            out.append('\n')
    finally:
        METHODS, CFG_ATTRS, STATE_ATTRS, ORACLES, CFG_TYPE, LOCAL_ELT, EXTRA_PARAMS, MONAD, EXPR_HOOKS, STMT_SKIP, RECEIVERS, STMT_HOOKS = saved
    return ''.join(out)


def translate_device(src_dir: str) -> str:
    global METHODS, CFG_ATTRS, STATE_ATTRS, ORACLES, CFG_TYPE, LOCAL_ELT, EXTRA_PARAMS, MONAD, EXPR_HOOKS, STMT_SKIP, RECEIVERS, STMT_HOOKS
    saved = (METHODS, CFG_ATTRS, STATE_ATTRS, ORACLES, CFG_TYPE, LOCAL_ELT, EXTRA_PARAMS, MONAD, EXPR_HOOKS, STMT_SKIP, RECEIVERS, STMT_HOOKS)
    out = [PURE_PREAMBLE % ('device.py', ' Writers.Device', 'AeState SrcAe EquivAe DevState')]
    try:
        mod = ast.parse(pathlib.Path(src_dir, 'device.py').read_text())
        cls = [n for n in mod.body if isinstance(n, ast.ClassDef) and n.name == 'Device']
        if len(cls) != 1:
            raise Unsupported('class Device not found in device.py')
        # the registry built in __init__: {<object type>: <Writer>(<x>_list=[], **param), ...}
        init = [n for n in cls[0].body if isinstance(n, ast.FunctionDef) and n.name == '__init__']
        regs = [st for st in (init[0].body if init else []) if isinstance(st, ast.Assign) and len(st.targets) == 1
                and dump(st.targets[0]) == "Attribute(value=Name(id='self'), attr='writers')"]
        if len(regs) != 1 or not isinstance(regs[0].value, ast.Dict):
            raise Unsupported('Device.__init__: expected exactly one `self.writers = {...}`')
        others = [n for n in ast.walk(cls[0]) if isinstance(n, ast.Attribute) and n.attr == 'writers' and isinstance(n.ctx, ast.Store)]
        if len(others) != 1:
            raise Unsupported('self.writers is assigned more than once in Device')
        pairs = []
        for k, v in zip(regs[0].value.keys, regs[0].value.values):
            if not (isinstance(k, ast.Name) and k.id in _AE_KIND and isinstance(v, ast.Call) and isinstance(v.func, ast.Name)
                    and v.func.id in _DEV_WRITER and not v.args and len(v.keywords) == 2 and v.keywords[0].arg is not None
                    and v.keywords[0].arg.endswith('_list') and dump(v.keywords[0].value) == 'List(elts=[])'
                    and v.keywords[1].arg is None and dump(v.keywords[1].value) == "Name(id='param')"):
                raise Unsupported(f'entry of self.writers: {dump(k)[:60]}: {dump(v)[:120]}')
            pairs.append(f'({_AE_KIND[k.id]}, {_DEV_WRITER[v.func.id]})')
        out.append('(* self.writers: the type an entry is registered under, and the writer class (named by the kind of its objects) *)\n')
        out.append(f"Definition src_writers : list (kind * kind) := [{'; '.join(pairs)}].\n\n")
        METHODS = {'parse_objects': ('method', [('unparsed_objects', 'list item')], 'unit'),
                   'append': ('method', [('obj', 'item')], 'unit'), 'extend': ('method', [('obj', 'item')], 'unit')}
        CFG_ATTRS, STATE_ATTRS, ORACLES = set(), {}, {}
        CFG_TYPE, LOCAL_ELT, EXTRA_PARAMS, MONAD = 'unit', {}, '', 'MD'
        EXPR_HOOKS, STMT_SKIP, RECEIVERS, STMT_HOOKS = [_h_dev], [], {'self'}, [_s_dev]
        tr = Tr(cls[0])
        for meth in METHODS:
            text = tr.method(meth)
            for m in METHODS:            # src_append / src_extend are the writers' dispatchers of EquivAe.v
                text = text.replace(f'src_{m}', f'src_dev_{m}')
            out.append(text)
            out.append('\n')
    finally:
        METHODS, CFG_ATTRS, STATE_ATTRS, ORACLES, CFG_TYPE, LOCAL_ELT, EXTRA_PARAMS, MONAD, EXPR_HOOKS, STMT_SKIP, RECEIVERS, STMT_HOOKS = saved
    return ''.join(out)


PURE_PREAMBLE = '''(* GENERATED by harness/py2coq.py from src/femto/%s -- do not edit.
   Small pure methods (point count, Nasu pass order, number of wall passes, adjusted bridge); PureEquiv.v relates them to
   Path/Sampling.v, Writers/Writers.v, Trench/TreeProofs.v. *)
From Coq Require Import List Bool ZArith NArith QArith Qabs Qround String Ascii.
Import ListNotations.
From Femto Require Import Base.Num%s.
From FemtoTie Require Import PyPrelude PgmState %s.
Local Open Scope string_scope.
Local Open Scope list_scope.

'''


def translate_pure(src_dir: str, spec: dict) -> str:
    global METHODS, CFG_ATTRS, STATE_ATTRS, ORACLES, CFG_TYPE, LOCAL_ELT, EXTRA_PARAMS, MONAD, EXPR_HOOKS, STMT_SKIP
    saved = (METHODS, CFG_ATTRS, STATE_ATTRS, ORACLES, CFG_TYPE, LOCAL_ELT, EXTRA_PARAMS, MONAD, EXPR_HOOKS, STMT_SKIP)
    out = [PURE_PREAMBLE % (spec['file'], spec.get('femto_imports', ''), spec.get('imports', 'PureState'))]
    try:
        mod = ast.parse(pathlib.Path(src_dir, spec['file']).read_text())
        cls = [n for n in mod.body if isinstance(n, ast.ClassDef) and n.name == spec['cls']]
        if len(cls) != 1:
            raise Unsupported(f"class {spec['cls']} not found in {spec['file']}")
        METHODS, CFG_ATTRS, STATE_ATTRS, ORACLES = spec['methods'], spec['cfg_attrs'], {}, {}
        CFG_TYPE, LOCAL_ELT = spec['cfg_type'], spec['local_elt']
        EXTRA_PARAMS, MONAD = spec.get('extra_params', ''), spec.get('monad', 'MP')
        EXPR_HOOKS, STMT_SKIP = spec.get('expr_hooks', []), spec.get('stmt_skip', [])
        tr = Tr(cls[0])
        out.append('\n'.join(f"Notation cfg_{a} := {spec['cfg_type'][:2]}_{a}." for a in sorted(CFG_ATTRS)) + '\n\n')
        for name in METHODS:
            out.append(tr.method(name))
            out.append('\n')
    finally:
        METHODS, CFG_ATTRS, STATE_ATTRS, ORACLES, CFG_TYPE, LOCAL_ELT, EXTRA_PARAMS, MONAD, EXPR_HOOKS, STMT_SKIP = saved
    return ''.join(out)


def translate_writers(src_dir: str, spec: dict | None = None) -> str:
    global METHODS, CFG_ATTRS, STATE_ATTRS, ORACLES, CFG_TYPE, LOCAL_ELT, EXTRA_PARAMS, MONAD, EXPR_HOOKS, STMT_SKIP, RECEIVERS
    saved = (METHODS, CFG_ATTRS, STATE_ATTRS, ORACLES, CFG_TYPE, LOCAL_ELT, EXTRA_PARAMS, MONAD, EXPR_HOOKS, STMT_SKIP, RECEIVERS)
    spec = spec or WRITER_SPEC
    out = [PURE_PREAMBLE % ('writer.py', spec['femto_imports'], spec['imports'])]
    try:
        api = [n for n in ast.parse(pathlib.Path(src_dir, 'pgmcompiler.py').read_text()).body
               if isinstance(n, ast.ClassDef) and n.name == 'PGMCompiler'][0]
        mod = ast.parse(pathlib.Path(src_dir, 'writer.py').read_text())
        pgm_methods = dict(METHODS)
        for cls_name, meth, gen_name, sig in spec['parts']:
            cls = [n for n in mod.body if isinstance(n, ast.ClassDef) and n.name == cls_name]
            if len(cls) != 1:
                raise Unsupported(f'class {cls_name} not found in writer.py')
            METHODS = dict(pgm_methods)
            METHODS[meth] = ('withbody', sig, 'unit')
            CFG_ATTRS, STATE_ATTRS, ORACLES = spec['cfg_attrs'], {}, {}
            CFG_TYPE, LOCAL_ELT, EXTRA_PARAMS, MONAD = spec['cfg_type'], spec['local_elt'], '', 'MP'
            EXPR_HOOKS, STMT_SKIP, RECEIVERS = spec['expr_hooks'], spec['stmt_skip'], {'G'}
            tr = Tr(cls[0], api)
            out.append(tr.method(meth).replace(f'Definition src_{meth} ', f'Definition src_{gen_name} ', 1))
            out.append('\n')
    finally:
        METHODS, CFG_ATTRS, STATE_ATTRS, ORACLES, CFG_TYPE, LOCAL_ELT, EXTRA_PARAMS, MONAD, EXPR_HOOKS, STMT_SKIP, RECEIVERS = saved
    return ''.join(out)


def translate_append_extend(src_dir: str) -> str:
    global METHODS, CFG_ATTRS, STATE_ATTRS, ORACLES, CFG_TYPE, LOCAL_ELT, EXTRA_PARAMS, MONAD, EXPR_HOOKS, STMT_SKIP, RECEIVERS
    saved = (METHODS, CFG_ATTRS, STATE_ATTRS, ORACLES, CFG_TYPE, LOCAL_ELT, EXTRA_PARAMS, MONAD, EXPR_HOOKS, STMT_SKIP, RECEIVERS)
    out = [PURE_PREAMBLE % ('writer.py', ' Writers.Device', 'AeState')]
    try:
        mod = ast.parse(pathlib.Path(src_dir, 'writer.py').read_text())
        for cls_name, tag in AE_SPEC['classes']:
            cls = [n for n in mod.body if isinstance(n, ast.ClassDef) and n.name == cls_name]
            if len(cls) != 1:
                raise Unsupported(f'class {cls_name} not found in writer.py')
            METHODS = {'append': ('method', [('obj', 'item')], 'unit'), 'extend': ('method', [('obj', 'item')], 'unit')}
            CFG_ATTRS, STATE_ATTRS, ORACLES = set(), {'obj_list': 'ol'}, {}
            CFG_TYPE, LOCAL_ELT, EXTRA_PARAMS, MONAD = 'unit', {}, '', 'MI'
            EXPR_HOOKS, STMT_SKIP, RECEIVERS = [_h_ae], [_skip_ae], {'self'}
            tr = Tr(cls[0])
            for meth in ('append', 'extend'):
                if meth not in tr.defs:
                    # inherited (UTrenchWriter.extend is TrenchWriter.extend; self.append dispatches to the subclass)
                    base = [n for n in mod.body if isinstance(n, ast.ClassDef) and n.name == cls[0].bases[0].id]
                    tr.defs[meth] = Tr(base[0]).defs[meth]
                text = tr.method(meth)
                text = text.replace('src_append', f'src_{tag}_append').replace('src_extend', f'src_{tag}_extend')
                out.append(text)
                out.append('\n')
    finally:
        METHODS, CFG_ATTRS, STATE_ATTRS, ORACLES, CFG_TYPE, LOCAL_ELT, EXTRA_PARAMS, MONAD, EXPR_HOOKS, STMT_SKIP, RECEIVERS = saved
    return ''.join(out)

# ---- helpers.unique_filter / helpers.split_mask and the LaserPath views (C11): straight-line numpy code, read operation by
#      operation as the array semantics of coq/tie/NpState.v
_NP_PYLISTS = {'arrays', 'sp'}          # names that hold python lists (of arrays), not arrays
_NP_RESHAPE = ("Expr(value=Call(func=Attribute(value=Name(id='data'), attr='reshape'), args=[UnaryOp(op=USub(), operand=Constant(value=1)), "
               "Call(func=Name(id='len'), args=[Name(id='arrays')], keywords=[])], keywords=[]))")
_NP_DELETE = (r"Call\(func=Attribute\(value=Name\(id='np'\), attr='delete'\), args=\[Name\(id='(\w+)'\), Call\(func=Attribute\(value=Name\(id='np'\), "
              r"attr='where'\), args=\[Call\(func=Attribute\(value=Name\(id='np'\), attr='invert'\), args=\[Call\(func=Attribute\(value=Name\(id='(\w+)'\), "
              r"attr='astype'\), args=\[Name\(id='bool'\)\], keywords=\[\]\)\], keywords=\[\]\)\], keywords=\[\]\)\], keywords=\[\]\)")
_NP_OPTION_RET = {'lastx', 'lasty', 'lastz'}


def _np_is(e, mod, attr):
    return isinstance(e, ast.Attribute) and isinstance(e.value, ast.Name) and e.value.id == mod and e.attr == attr


def _np_const_index(sl):
    if isinstance(sl, ast.Constant) and isinstance(sl.value, int) and not isinstance(sl.value, bool):
        return sl.value
    if isinstance(sl, ast.UnaryOp) and isinstance(sl.op, ast.USub) and isinstance(sl.operand, ast.Constant) and isinstance(sl.operand.value, int):
        return -sl.operand.value
    return None


def _np_slice_kind(sl):
    """'from1' for [1:], 'to_m1' for [:-1], 'evens' for [0::2], 'odds' for [1::2]"""
    if not isinstance(sl, ast.Slice):
        return None
    lo, hi, st = _np_const_index(sl.lower) if sl.lower is not None else None, \
        _np_const_index(sl.upper) if sl.upper is not None else None, _np_const_index(sl.step) if sl.step is not None else None
    if (sl.lower is not None and lo is None) or (sl.upper is not None and hi is None) or (sl.step is not None and st is None):
        raise Unsupported('slice bound that is not an integer constant')
    key = (lo, hi, st)
    kinds = {(1, None, None): 'from1', (None, -1, None): 'to_m1', (0, None, 2): 'evens', (1, None, 2): 'odds'}
    if key not in kinds:
        raise Unsupported(f'slice {key}')
    return kinds[key]


def _h_np(tr, e, env):
    d = dump(e)
    if isinstance(e, ast.Call) and _np_is(e.func, 'np', 'array') and len(e.args) == 1 and not e.keywords:
        a = e.args[0]
        if isinstance(a, ast.List) and not a.elts:
            return [], '(A1 [])'
        if isinstance(a, ast.List):
            effs, ts = [], []
            for x in a.elts:
                eff, t = tr.E(x, env)
                effs += eff
                ts.append(t)
            v = env.fresh('arr')
            return effs + [(v, f'nd_of_items [{"; ".join(ts)}]')], v
        return tr.E(a, env)
    if isinstance(e, ast.Attribute) and e.attr in ('T', 'size', 'ndim') and not (isinstance(e.value, ast.Name) and e.value.id == 'np'):
        eff, t = tr.E(e.value, env)
        return eff, f"({ {'T': 'nd_T', 'size': 'nd_size', 'ndim': 'nd_ndim'}[e.attr] } {t})"
    if (isinstance(e, ast.Call) and isinstance(e.func, ast.Attribute) and e.func.attr == 'astype' and len(e.args) == 1 and not e.keywords
            and _np_is(e.args[0], 'np', 'float32')):
        eff, t = tr.E(e.func.value, env)
        return eff, f'(nd_map cast {t})'
    if (isinstance(e, ast.Call) and _np_is(e.func, 'np', 'stack') and len(e.args) == 1 and len(e.keywords) == 1 and e.keywords[0].arg == 'axis'
            and _np_const_index(e.keywords[0].value) == -1):
        eff, t = tr.E(e.args[0], env)
        v = env.fresh('stacked')
        return eff + [(v, f'nd_stack_last {t}')], v
    if isinstance(e, ast.Subscript):
        base_is_pylist = isinstance(e.value, ast.Name) and e.value.id in _NP_PYLISTS
        kind = _np_slice_kind(e.slice)
        if kind in ('evens', 'odds'):
            if not base_is_pylist:
                raise Unsupported('strided slice of an array')
            return [], f'({kind} {cname(e.value.id)})'
        if kind is not None:
            if base_is_pylist:
                raise Unsupported('slice of a python list')
            eff, t = tr.E(e.value, env)
            v = env.fresh('sl')
            return eff + [(v, f'nd_{kind} {t}')], v
        k = _np_const_index(e.slice)
        if k is not None and not base_is_pylist:
            eff, t = tr.E(e.value, env)
            v = env.fresh('item')
            return eff + [(v, f'nd_item ({k}) {t}')], v
        if isinstance(e.slice, ast.Name) and not base_is_pylist:
            eff, t = tr.E(e.value, env)
            v = env.fresh('sel')
            return eff + [(v, f'nd_bool_index {cname(e.slice.id)} {t}')], v
        if k is None:
            raise Unsupported(f'subscript {d[:120]}')
        return None
    if (isinstance(e, ast.Compare) and len(e.ops) == 1 and isinstance(e.ops[0], ast.NotEq)
            and any(isinstance(x, ast.Subscript) and isinstance(x.slice, ast.Slice) for x in (e.left, e.comparators[0]))):
        e1, t1 = tr.E(e.left, env)
        e2, t2 = tr.E(e.comparators[0], env)
        v = env.fresh('ne')
        return e1 + e2 + [(v, f'nd_ne cell_eqb {t1} {t2}')], v
    if (isinstance(e, ast.Call) and _np_is(e.func, 'np', 'any') and len(e.args) == 1 and len(e.keywords) == 1 and e.keywords[0].arg == 'axis'
            and _np_const_index(e.keywords[0].value) == 1):
        eff, t = tr.E(e.args[0], env)
        v = env.fresh('any')
        return eff + [(v, f'nd_any_axis1 {t}')], v
    if (isinstance(e, ast.Call) and _np_is(e.func, 'np', 'insert') and len(e.args) == 3 and not e.keywords
            and _np_const_index(e.args[1]) == 0 and isinstance(e.args[2], ast.Constant) and e.args[2].value is True):
        eff, t = tr.E(e.args[0], env)
        return eff, f'(nd_insert0 true {t})'
    if (isinstance(e, ast.BinOp) and isinstance(e.op, ast.Add) and _np_const_index(e.right) == 1 and isinstance(e.left, ast.Subscript)
            and _np_const_index(e.left.slice) == 0 and isinstance(e.left.value, ast.Call) and _np_is(e.left.value.func, 'np', 'nonzero')
            and len(e.left.value.args) == 1 and not e.left.value.keywords):
        eff, t = tr.E(e.left.value.args[0], env)
        v = env.fresh('idx')
        return eff + [(v, f'nd_nonzero_succ {t}')], v
    if isinstance(e, ast.Call) and _np_is(e.func, 'np', 'split') and len(e.args) == 2 and not e.keywords:
        e1, t1 = tr.E(e.args[0], env)
        e2, t2 = tr.E(e.args[1], env)
        v = env.fresh('parts')
        return e1 + e2 + [(v, f'nd_split {t1} {t2}')], v
    if isinstance(e, ast.Call) and isinstance(e.func, ast.Name) and e.func.id == 'unique_filter' and len(e.args) == 1 and not e.keywords:
        eff, t = tr.E(e.args[0], env)
        v = env.fresh('uf')
        return eff + [(v, f'src_unique_filter c {t}')], v
    if isinstance(e, ast.Call) and isinstance(e.func, ast.Name) and e.func.id == 'float' and len(e.args) == 1 and not e.keywords:
        eff, t = tr.E(e.args[0], env)
        v = env.fresh('scalar')
        return eff + [(v, f'nd_scalar {t}')], v
    m = re.fullmatch(_NP_DELETE, d)
    if m:
        v = env.fresh('kept')
        return [(v, f'nd_keep_where nz {cname(m.group(2))} {cname(m.group(1))}')], v
    if isinstance(e, ast.IfExp) and isinstance(e.test, ast.Subscript):
        et, tt = tr.E(e.test, env)
        eb, tb = tr.E(e.body, env)
        eo, to = tr.E(e.orelse, env)
        if eb or eo:
            raise Unsupported('effect in a branch of a conditional expression')
        v = env.fresh('test')
        return et + [(v, f'nd_scalar {tt}')], f'(if {v} then {tb} else {to})'
    if isinstance(e, ast.Call) and (isinstance(e.func, ast.Attribute) and isinstance(e.func.value, ast.Name) and e.func.value.id == 'np'):
        raise Unsupported(f'numpy call outside the subset: {d[:160]}')
    return None


def _s_np(tr, s, rest, env, tail):
    if dump(s) == _NP_RESHAPE:
        return tr.T(rest, env, tail)          # the result of reshape is discarded
    if (isinstance(s, ast.Try) and len(s.handlers) == 1 and not s.orelse and not s.finalbody and s.handlers[0].name is None
            and s.handlers[0].type is not None and _np_is(s.handlers[0].type, 'np', 'AxisError')
            and len(s.body) == 1 and len(s.handlers[0].body) == 1):
        b, h = s.body[0], s.handlers[0].body[0]
        if (isinstance(b, ast.Assign) and isinstance(h, ast.Assign) and len(b.targets) == 1 and len(h.targets) == 1
                and isinstance(b.targets[0], ast.Name) and dump(b.targets[0]) == dump(h.targets[0])):
            eb, tb = tr.E(b.value, env)
            eh, th = tr.E(h.value, env)
            n = cname(b.targets[0].id)
            return f'{n} <- catch_axis ({tr.wrap(eb, "ret " + tb)}) ({tr.wrap(eh, "ret " + th)}) ;; {tr.T(rest, env, tail)}'
        raise Unsupported('try / except np.AxisError of another shape')
    if isinstance(s, ast.Try):
        raise Unsupported('try statement')
    if isinstance(s, ast.Return) and env.meth in _NP_OPTION_RET:
        if s.value is None or (isinstance(s.value, ast.Constant) and s.value.value is None):
            return 'ret None'
        eff, t = tr.E(s.value, env)
        return tr.wrap(eff, f'ret (Some {t})')
    if isinstance(s, ast.Assign) and len(s.targets) == 1 and isinstance(s.targets[0], ast.Tuple) and all(isinstance(x, ast.Name) for x in s.targets[0].elts):
        names = [cname(x.id) for x in s.targets[0].elts]
        v = s.value
        if isinstance(v, ast.Tuple) and len(v.elts) == len(names):
            effs, ts = [], []
            for x in v.elts:
                eff, t = tr.E(x, env)
                effs += eff
                ts.append(t)
            tmps = [env.fresh('rhs') for _ in names]
            body = tr.T(rest, env, tail)
            for n, tmp in reversed(list(zip(names, tmps))):
                body = f'let {n} := {tmp} in {body}'
            for tmp, t in reversed(list(zip(tmps, ts))):
                body = f'let {tmp} := {t} in {body}'
            return tr.wrap(effs, body)
        eff, t = tr.E(v, env)
        if isinstance(v, ast.Call) and isinstance(v.func, ast.Name) and v.func.id == 'unique_filter':
            r = env.fresh('rows')
            eff, t = eff + [(r, f'nd_rows {t}')], r
        return tr.wrap(eff, f"match {t} with [{'; '.join(names)}] => {tr.T(rest, env, tail)} | _ => raise EValue end")
    return None


_UF_HEADER = """Section Src.
Context {cell : Type} (ceq : cell -> cell -> bool) (cast : cell -> cell) (nz : cell -> bool).
(* `!=` on the cells of a trajectory is negb ceq; on the booleans of a mask it is xor *)
Class CellEq (A : Type) := cell_eqb : A -> A -> bool.
Local Instance celleq_cell : CellEq cell := ceq.
Local Instance celleq_bool : CellEq bool := Bool.eqb.
Notation cfg__x := lv__x. Notation cfg__y := lv__y. Notation cfg__z := lv__z. Notation cfg__f := lv__f. Notation cfg__s := lv__s.

"""


def translate_views(src_dir: str) -> str:
    global METHODS, CFG_ATTRS, STATE_ATTRS, ORACLES, CFG_TYPE, LOCAL_ELT, EXTRA_PARAMS, MONAD, EXPR_HOOKS, STMT_SKIP, RECEIVERS, STMT_HOOKS
    saved = (METHODS, CFG_ATTRS, STATE_ATTRS, ORACLES, CFG_TYPE, LOCAL_ELT, EXTRA_PARAMS, MONAD, EXPR_HOOKS, STMT_SKIP, RECEIVERS, STMT_HOOKS)
    out = [PURE_PREAMBLE % ('helpers.py, laserpath.py', ' Base.Dedup Base.Runs', 'NpState'), _UF_HEADER]
    try:
        hl = ast.parse(pathlib.Path(src_dir, 'helpers.py').read_text())
        funs = {n.name: n for n in hl.body if isinstance(n, ast.FunctionDef) and n.name in ('unique_filter', 'split_mask')}
        if len(funs) != 2:
            raise Unsupported('helpers.py: unique_filter / split_mask not found')
        lp = ast.parse(pathlib.Path(src_dir, 'laserpath.py').read_text())
        cls = [n for n in lp.body if isinstance(n, ast.ClassDef) and n.name == 'LaserPath']
        if len(cls) != 1:
            raise Unsupported('class LaserPath not found')
        views = {'points': 'nd cell', 'x': 'nd cell', 'y': 'nd cell', 'z': 'nd cell', 'lastx': 'option cell', 'lasty': 'option cell',
                 'lastz': 'option cell', 'lastpt': 'nd cell', 'path3d': 'list (nd cell)', 'path': 'list (nd cell)'}
        METHODS = {'unique_filter': ('method', [('arrays', 'list (nd cell)')], 'nd cell'),
                   'split_mask': ('method', [('arr', 'nd cell'), ('mask', 'nd bool')], 'list (nd cell)')}
        METHODS.update({k: ('property', [], v) for k, v in views.items()})
        CFG_ATTRS, STATE_ATTRS, ORACLES = {'_x', '_y', '_z', '_f', '_s'}, {}, {}
        CFG_TYPE, LOCAL_ELT, EXTRA_PARAMS, MONAD = '(lv_cfg cell)', {}, '', 'MN'
        EXPR_HOOKS, STMT_SKIP, RECEIVERS, STMT_HOOKS = [_h_np], [], {'self'}, [_s_np]
        trh = Tr(ast.ClassDef(name='helpers', bases=[], keywords=[], body=list(funs.values()), decorator_list=[]))
        for name in ('unique_filter', 'split_mask'):
            out.append(trh.method(name) + '\n')
        trl = Tr(cls[0])
        for name in views:
            out.append(trl.method(name) + '\n')
        out.append('End Src.\n')
    finally:
        METHODS, CFG_ATTRS, STATE_ATTRS, ORACLES, CFG_TYPE, LOCAL_ELT, EXTRA_PARAMS, MONAD, EXPR_HOOKS, STMT_SKIP, RECEIVERS, STMT_HOOKS = saved
    return ''.join(out)

# ---- Marker.cross / ruler / meander / ablation / box (C14): which start / linear / end calls a figure is made of
def _h_mk(tr, e, env):
    d = dump(e)
    if isinstance(e, ast.Call) and isinstance(e.func, ast.Attribute) and isinstance(e.func.value, ast.Name) and e.func.value.id in ('np', 'math'):
        f, a = e.func.attr, e.args
        mod = e.func.value.id
        if e.keywords:
            raise Unsupported(f'numpy call with keywords: {d[:120]}')
        if mod == 'np' and f == 'unique' and len(a) == 1:
            eff, t = tr.E(a[0], env)
            return eff, f'(np_unique {t})'
        if mod == 'np' and f in ('asarray', 'array') and len(a) == 1:
            return tr.E(a[0], env)
        if mod == 'np' and f == 'repeat' and len(a) == 2:
            e1, t1 = tr.E(a[0], env)
            e2, t2 = tr.E(a[1], env)
            return e1 + e2, f'(np_repeat {t1} {t2})'
        if mod == 'np' and f == 'add' and len(a) == 2 and isinstance(a[1], ast.List) and len(a[1].elts) == 3:
            e1, t1 = tr.E(a[0], env)
            effs, ts = [], []
            for x in a[1].elts:
                eff, t = tr.coerce(x, 'Q', env)
                effs += eff
                ts.append(f'(to_float {t})')
            return e1 + effs, f'(np_add_rows {t1} [{"; ".join(ts)}])'
        if mod == 'np' and f == 'sign' and len(a) == 1:
            eff, t = tr.E(a[0], env)
            return eff, f'(np_sign {t})'
        if mod == 'np' and f == 'abs' and len(a) == 1:
            eff, t = tr.E(a[0], env)
            return eff, f'(Qabs {t})'
        if mod == 'math' and f == 'floor' and len(a) == 1:
            eff, t = tr.E(a[0], env)
            return eff, f'(math_floor {t})'
        raise Unsupported(f'numpy / math call outside the subset: {d[:120]}')
    if d == "Call(func=Name(id='next'), args=[Name(id='s')], keywords=[])":
        v = env.fresh('sgn')
        return [(v, 'sign_next')], v
    if isinstance(e, ast.List) and any(isinstance(x, ast.Starred) for x in e.elts):
        # [*init_pos, self.depth]
        if len(e.elts) == 2 and isinstance(e.elts[0], ast.Starred) and isinstance(e.elts[0].value, ast.Name):
            eff, t = tr.E(e.elts[1], env)
            return eff, f'({cname(e.elts[0].value.id)} ++ [{t}])%list'
        raise Unsupported('starred list display')
    if isinstance(e, ast.List) and e.elts and all(isinstance(x, ast.Constant) and isinstance(x.value, int) and not isinstance(x.value, bool) for x in e.elts):
        return [], '[' + '; '.join(f'({x.value})%Z' for x in e.elts) + ']'      # [2, 3]: a list of ints
    return None


def _s_mk(tr, s, rest, env, tail):
    d = dump(s)
    if d == "Assign(targets=[Name(id='s')], value=Call(func=Name(id='sign'), args=[], keywords=[]))":
        return f'sign_new ;;; {tr.T(rest, env, tail)}'
    if (isinstance(s, ast.Assign) and len(s.targets) == 1 and isinstance(s.targets[0], ast.Tuple) and len(s.targets[0].elts) == 3
            and isinstance(s.targets[0].elts[2], ast.Starred) and isinstance(s.value, ast.Name)
            and all(isinstance(x, ast.Name) for x in s.targets[0].elts[:2])):
        a, b = (cname(x.id) for x in s.targets[0].elts[:2])          # xi, yi, *_ = seq
        return f'match {cname(s.value.id)} with {a} :: {b} :: _ => {tr.T(rest, env, tail)} | _ => raise EValue end'
    if (isinstance(s, ast.Assign) and len(s.targets) == 1 and isinstance(s.targets[0], ast.Subscript) and isinstance(s.targets[0].value, ast.Name)
            and isinstance(s.targets[0].slice, ast.Constant) and s.targets[0].slice.value == 0):
        n = cname(s.targets[0].value.id)                               # arr[0] = v
        eff, t = tr.E(s.value, env)
        return tr.wrap(eff, f'{n} <- set_first (to_float {t}) {n} ;; {tr.T(rest, env, tail)}')
    if isinstance(s, ast.Return) and (s.value is None or (isinstance(s.value, ast.Constant) and s.value.value is None)):
        return 'ret tt'
    return None


_MK_ORACLES = {
    'start': ('lp_start', True, True, ['init_pos', 'speed_pos'], {'speed_pos': ''}, ['list (Q)', None]),
    'linear': ('lp_linear', True, True, ['increment', 'mode', 'shutter', 'speed'], {'mode': '"INC"', 'shutter': '(1)%Z', 'speed': 'None'},
               ['list (option Q)', 'string', 'Z', 'option Q']),
    'end': ('lp_end', True, True, [], {}, []),
}


def translate_marker(src_dir: str) -> str:
    global METHODS, CFG_ATTRS, STATE_ATTRS, ORACLES, CFG_TYPE, LOCAL_ELT, EXTRA_PARAMS, MONAD, EXPR_HOOKS, STMT_SKIP, RECEIVERS, STMT_HOOKS
    saved = (METHODS, CFG_ATTRS, STATE_ATTRS, ORACLES, CFG_TYPE, LOCAL_ELT, EXTRA_PARAMS, MONAD, EXPR_HOOKS, STMT_SKIP, RECEIVERS, STMT_HOOKS)
    out = [PURE_PREAMBLE % ('marker.py', ' Path.Laser Path.Marker', 'MkState')]
    try:
        mod = ast.parse(pathlib.Path(src_dir, 'marker.py').read_text())
        cls = [n for n in mod.body if isinstance(n, ast.ClassDef) and n.name == 'Marker']
        if len(cls) != 1:
            raise Unsupported('class Marker not found')
        METHODS = {
            'cross': ('method', [('position', 'list Q'), ('lx', 'option Q'), ('ly', 'option Q')], 'unit'),
            'ruler': ('method', [('y_ticks', 'option (list Q)'), ('lx', 'option Q'), ('lx2', 'option Q'), ('x_init', 'option Q')], 'unit'),
            'meander': ('method', [('init_pos', 'list Q'), ('final_pos', 'list Q'), ('width', 'Q'), ('delta', 'Q'), ('orientation', 'string')], 'unit'),
            'ablation': ('method', [('points', 'list (list Q)'), ('shift', 'option Q')], 'unit'),
            'box': ('method', [('lower_left_corner', 'list Q'), ('width', 'Q'), ('height', 'Q')], 'unit'),
        }
        CFG_ATTRS, STATE_ATTRS = {'depth', 'lx', 'ly', 'x_init'}, {}
        ORACLES = dict(_MK_ORACLES)
        CFG_TYPE, LOCAL_ELT, EXTRA_PARAMS, MONAD = 'mk_cfg', {}, '', 'MM'
        EXPR_HOOKS, STMT_SKIP, RECEIVERS, STMT_HOOKS = [_h_mk], [], {'self'}, [_s_mk]
        tr = Tr(cls[0])
        out.append('\n'.join(f'Notation cfg_{a} := mk_{a}.' for a in sorted(CFG_ATTRS)) + '\n\n')
        for name in ('cross', 'ruler', 'meander', 'ablation', 'box'):       # box calls ablation
            out.append(tr.method(name) + '\n')
    finally:
        METHODS, CFG_ATTRS, STATE_ATTRS, ORACLES, CFG_TYPE, LOCAL_ELT, EXTRA_PARAMS, MONAD, EXPR_HOOKS, STMT_SKIP, RECEIVERS, STMT_HOOKS = saved
    return ''.join(out)

# ---- LaserPath.add_path (C10): the single store point - what is checked, on which values, and what is stored
_AP_GEN = ("Assign(targets=[Tuple(elts=[Name(id='x'), Name(id='y'), Name(id='z'), Name(id='f'), Name(id='s')])], value=GeneratorExp(elt=Call(func=Attribute("
           "value=Call(func=Attribute(value=Name(id='np'), attr='asarray'), args=[Name(id='a')], keywords=[]), attr='astype'), args=[Attribute(value=Name(id='np'), "
           "attr='float32')], keywords=[]), generators=[comprehension(target=Name(id='a'), iter=Tuple(elts=[Name(id='x'), Name(id='y'), Name(id='z'), Name(id='f'), "
           "Name(id='s')]), ifs=[], is_async=0)]))")


def _h_ap(tr, e, env):
    d = dump(e)
    if isinstance(e, ast.Call) and _np_is(e.func, 'np', 'all') and len(e.args) == 1 and not e.keywords:
        a = e.args[0]
        if isinstance(a, ast.Call) and _np_is(a.func, 'np', 'isfinite') and len(a.args) == 1 and not a.keywords and isinstance(a.args[0], ast.Name):
            return [], f'(nd_all fin {cname(a.args[0].id)})'
        if (isinstance(a, ast.Compare) and len(a.ops) == 1 and isinstance(a.ops[0], ast.Gt) and isinstance(a.left, ast.Name)
                and isinstance(a.comparators[0], ast.Constant) and a.comparators[0].value == 0 and a.comparators[0].value is not False):
            return [], f'(nd_all pos {cname(a.left.id)})'
        raise Unsupported(f'np.all of another test: {d[:160]}')
    if isinstance(e, ast.Call) and _np_is(e.func, 'np', 'append') and len(e.args) == 2 and not e.keywords:
        e1, t1 = tr.E(e.args[0], env)
        e2, t2 = tr.E(e.args[1], env)
        return e1 + e2, f'(nd_append {t1} {t2})'
    if (isinstance(e, ast.Call) and isinstance(e.func, ast.Attribute) and e.func.attr == 'astype' and len(e.args) == 1 and not e.keywords
            and _np_is(e.args[0], 'np', 'float32')):
        eff, t = tr.E(e.func.value, env)
        return eff, f'(nd_map cast {t})'
    if isinstance(e, ast.Call) and isinstance(e.func, ast.Attribute) and isinstance(e.func.value, ast.Name) and e.func.value.id == 'np':
        raise Unsupported(f'numpy call outside the subset: {d[:160]}')
    return None


def _s_ap(tr, s, rest, env, tail):
    if dump(s) == _AP_GEN:
        body = tr.T(rest, env, tail)
        for n in reversed(['x', 'y', 'z', 'f', 's']):
            body = f'let {cname(n)} := (nd_map cast {cname(n)}) in {body}'
        return body
    if isinstance(s, ast.Assign) and isinstance(s.value, ast.GeneratorExp):
        raise Unsupported('generator expression assigned')
    return None


_AP_HEADER = """Section Src.
Context {cell : Type} (cast : cell -> cell) (fin : cell -> bool) (pos : cell -> bool).
Notation MA := (@M (ap_st cell)).

"""


def translate_add_path(src_dir: str) -> str:
    global METHODS, CFG_ATTRS, STATE_ATTRS, ORACLES, CFG_TYPE, LOCAL_ELT, EXTRA_PARAMS, MONAD, EXPR_HOOKS, STMT_SKIP, RECEIVERS, STMT_HOOKS
    saved = (METHODS, CFG_ATTRS, STATE_ATTRS, ORACLES, CFG_TYPE, LOCAL_ELT, EXTRA_PARAMS, MONAD, EXPR_HOOKS, STMT_SKIP, RECEIVERS, STMT_HOOKS)
    out = [PURE_PREAMBLE % ('laserpath.py', '', 'NpState'), _AP_HEADER]
    try:
        lp = ast.parse(pathlib.Path(src_dir, 'laserpath.py').read_text())
        cls = [n for n in lp.body if isinstance(n, ast.ClassDef) and n.name == 'LaserPath']
        if len(cls) != 1:
            raise Unsupported('class LaserPath not found')
        METHODS = {'add_path': ('method', [(n, 'nd cell') for n in ('x', 'y', 'z', 'f', 's')], 'unit')}
        CFG_ATTRS, ORACLES = set(), {}
        STATE_ATTRS = {'_x': 'ap__x', '_y': 'ap__y', '_z': 'ap__z', '_f': 'ap__f', '_s': 'ap__s'}
        CFG_TYPE, LOCAL_ELT, EXTRA_PARAMS, MONAD = 'unit', {}, '', 'MA'
        EXPR_HOOKS, STMT_SKIP, RECEIVERS, STMT_HOOKS = [_h_ap], [], {'self'}, [_s_ap]
        out.append(Tr(cls[0]).method('add_path') + '\nEnd Src.\n')
    finally:
        METHODS, CFG_ATTRS, STATE_ATTRS, ORACLES, CFG_TYPE, LOCAL_ELT, EXTRA_PARAMS, MONAD, EXPR_HOOKS, STMT_SKIP, RECEIVERS, STMT_HOOKS = saved
    return ''.join(out)

# ---- RasterImage.image_to_path (C15): one closed stroke per maximal run of black pixels of every row
_RI_CONVERT = ("If(test=Compare(left=Attribute(value=Name(id='img'), attr='mode'), ops=[NotEq()], comparators=[Constant(value='1')]), body=[Assign(targets=["
               "Name(id='img')], value=Call(func=Attribute(value=Name(id='img'), attr='convert'), args=[Constant(value='1')], keywords=[]))], orelse=[])")
_RI_MATRIX = "Call(func=Attribute(value=Name(id='np'), attr='asarray'), args=[Name(id='img')], keywords=[keyword(arg='dtype', value=Name(id='bool'))])"
_RI_SIZE = "Assign(targets=[Attribute(value=Name(id='self'), attr='img_size')], value=Attribute(value=Name(id='img'), attr='size'))"


def _h_ri(tr, e, env):
    d = dump(e)
    if d == _RI_MATRIX:
        return [], '(im_matrix img)'
    m = re.fullmatch(r"Subscript\(value=Attribute\(value=Name\(id='self'\), attr='img_size'\), slice=Constant\(value=([01])\)\)", d)
    if m:
        return [], ('(fst img_size)' if m.group(1) == '0' else '(snd img_size)')
    if (isinstance(e, ast.Call) and _np_is(e.func, 'np', 'linspace') and len(e.args) == 2 and isinstance(e.args[0], ast.Constant) and e.args[0].value == 0
            and sorted(k.arg for k in e.keywords) == ['endpoint', 'num']):
        kw = {k.arg: k.value for k in e.keywords}
        if not (isinstance(kw['endpoint'], ast.Constant) and kw['endpoint'].value is True):
            raise Unsupported('linspace without endpoint=True')
        e1, t1 = tr.E(e.args[1], env)
        e2, t2 = tr.E(kw['num'], env)
        return e1 + e2, f'(np_linspace0 {t1} {t2})'
    if isinstance(e, ast.BoolOp) and isinstance(e.op, ast.Or) and len(e.values) == 2 and isinstance(e.values[1], ast.Constant) and e.values[1].value == 0.0 \
            and isinstance(e.values[1].value, float):
        eff, t = tr.E(e.values[0], env)
        return eff, f'(py_or0 {t})'
    if isinstance(e, ast.Call) and isinstance(e.func, ast.Name) and e.func.id == 'split_mask' and len(e.args) == 2 and not e.keywords:
        e1, t1 = tr.E(e.args[0], env)
        a = e.args[1]
        if not (isinstance(a, ast.UnaryOp) and isinstance(a.op, ast.Invert) and isinstance(a.operand, ast.Name)):
            raise Unsupported('split_mask with a mask other than ~row')
        v = env.fresh('parts')
        return e1 + [(v, f'split_mask_1d {t1} (map negb {cname(a.operand.id)})')], v
    if isinstance(e, ast.Call) and _np_is(e.func, 'np', 'array') and len(e.args) == 1 and isinstance(e.args[0], ast.List) and len(e.keywords) == 1 \
            and e.keywords[0].arg == 'dtype' and dump(e.keywords[0].value) in ("Attribute(value=Name(id='np'), attr='float32')", "Name(id='int')"):
        effs, ts = [], []
        for x in e.args[0].elts:
            eff, t = tr.E(x, env)
            effs += eff
            ts.append(f'(to_float {t})')
        return effs, '[' + '; '.join(ts) + ']'
    if (isinstance(e, ast.BinOp) and isinstance(e.op, ast.Mult) and isinstance(e.left, ast.Name) and isinstance(e.right, ast.Call)
            and _np_is(e.right.func, 'np', 'ones_like') and len(e.right.args) == 1 and isinstance(e.right.args[0], ast.Name)
            and [k.arg for k in e.right.keywords] == ['dtype'] and dump(e.right.keywords[0].value) == "Attribute(value=Name(id='np'), attr='float32')"):
        return [], f'(np_fill {cname(e.left.id)} {cname(e.right.args[0].id)})'
    if isinstance(e, ast.Call) and isinstance(e.func, ast.Attribute) and isinstance(e.func.value, ast.Name) and e.func.value.id == 'np':
        raise Unsupported(f'numpy call outside the subset: {d[:160]}')
    return None


def _s_ri(tr, s, rest, env, tail):
    d = dump(s)
    if d == _RI_SIZE:
        return f'let img_size := im_size img in {tr.T(rest, env, tail)}'
    if d == _RI_CONVERT:
        return tr.T(rest, env, tail)          # PIL's conversion to mode '1' is an oracle: im_matrix is the matrix after it
    if isinstance(s, ast.Assign) and any(isinstance(t, ast.Attribute) for t in s.targets):
        raise Unsupported(f'attribute assignment: {d[:120]}')
    return None


def translate_raster(src_dir: str) -> str:
    global METHODS, CFG_ATTRS, STATE_ATTRS, ORACLES, CFG_TYPE, LOCAL_ELT, EXTRA_PARAMS, MONAD, EXPR_HOOKS, STMT_SKIP, RECEIVERS, STMT_HOOKS, ALLOW_CONTINUE
    saved = (METHODS, CFG_ATTRS, STATE_ATTRS, ORACLES, CFG_TYPE, LOCAL_ELT, EXTRA_PARAMS, MONAD, EXPR_HOOKS, STMT_SKIP, RECEIVERS, STMT_HOOKS)
    out = [PURE_PREAMBLE % ('rasterimage.py', ' Base.Runs Path.Raster', 'NpState SrcUf RiState')]
    try:
        mod = ast.parse(pathlib.Path(src_dir, 'rasterimage.py').read_text())
        cls = [n for n in mod.body if isinstance(n, ast.ClassDef) and n.name == 'RasterImage']
        if len(cls) != 1:
            raise Unsupported('class RasterImage not found')
        METHODS = {'image_to_path': ('method', [('img', 'image')], 'unit')}
        CFG_ATTRS, STATE_ATTRS = {'px_to_mm', 'z_init', 'speed', 'speed_closed'}, {}
        ORACLES = {'add_path': ('rp_add_path', True, False, ['x', 'y', 'z', 'f', 's'])}
        CFG_TYPE, LOCAL_ELT, EXTRA_PARAMS, MONAD = 'ri_cfg', {}, '', 'MR'
        EXPR_HOOKS, STMT_SKIP, RECEIVERS, STMT_HOOKS = [_h_ri], [], {'self'}, [_s_ri]
        ALLOW_CONTINUE = True
        out.append('\n'.join(f'Notation cfg_{a} := ri_{a}.' for a in sorted(CFG_ATTRS)) + '\n\n')
        out.append(Tr(cls[0]).method('image_to_path') + '\n')
    finally:
        ALLOW_CONTINUE = False
        METHODS, CFG_ATTRS, STATE_ATTRS, ORACLES, CFG_TYPE, LOCAL_ELT, EXTRA_PARAMS, MONAD, EXPR_HOOKS, STMT_SKIP, RECEIVERS, STMT_HOOKS = saved
    return ''.join(out)

# ---- LaserPath.init_point / start / end (C04, C14): how a path is opened and closed
_LB_MAP_OR = "Call(func=Name(id='map'), args=[Lambda(args=arguments(posonlyargs=[], args=[arg(arg='k')], kwonlyargs=[], kw_defaults=[], defaults=[]), body=BoolOp(op=Or(), values=[Name(id='k'), Constant(value=0)])), Name(id='increment')], keywords=[])"


def _h_lb(tr, e, env):
    d = dump(e)
    # a = self._a[-1] if increment[k] is None else np.array([increment[k]])
    m = re.fullmatch(r"IfExp\(test=Compare\(left=Subscript\(value=Name\(id='increment'\), slice=Constant\(value=([012])\)\), ops=\[Is\(\)\], comparators=\[Constant\(value=None\)\]\), "
                     r"body=Subscript\(value=Attribute\(value=Name\(id='self'\), attr='(_[xyz])'\), slice=UnaryOp\(op=USub\(\), operand=Constant\(value=1\)\)\), "
                     r"orelse=Call\(func=Attribute\(value=Name\(id='np'\), attr='array'\), args=\[List\(elts=\[Subscript\(value=Name\(id='increment'\), slice=Constant\(value=\1\)\)\]\)\], keywords=\[\]\)\)", d)
    if m:
        # the last recorded value is read first: every later statement reads it unconditionally, nothing observable happens in between
        eff, t = tr.E(e.body, env)
        return eff, f'(match nth_error increment {m.group(1)} with Some (Some v__) => v__ | _ => {t} end)'
    if isinstance(e, ast.Call) and _np_is(e.func, 'np', 'sqrt') and len(e.args) == 1 and not e.keywords:
        eff, t = tr.E(e.args[0], env)
        return eff, f'(SqrtOf {t})'
    if isinstance(e, ast.BinOp) and isinstance(e.op, ast.Pow) and isinstance(e.right, ast.Constant) and e.right.value == 2:
        eff, t = tr.E(e.left, env)
        return eff, f'(sq {t})'
    if (isinstance(e, ast.Compare) and len(e.ops) == 1 and isinstance(e.ops[0], ast.LtE) and isinstance(e.left, ast.Name) and e.left.id == 'l_curve'
            and isinstance(e.comparators[0], ast.Constant) and isinstance(e.comparators[0].value, float) and e.comparators[0].value >= 0):
        return [], f'(sqrt_le l_curve {cq(e.comparators[0].value)})'
    if isinstance(e, ast.Call) and _np_is(e.func, 'np', 'array') and len(e.args) == 1 and not e.keywords and isinstance(e.args[0], ast.List) \
            and len(e.args[0].elts) == 1:
        return tr.E(e.args[0].elts[0], env)            # a one-element array, read as its element
    if (isinstance(e, ast.BinOp) and isinstance(e.op, ast.Mult) and isinstance(e.left, ast.Name) and isinstance(e.right, ast.Call)
            and _np_is(e.right.func, 'np', 'ones_like') and len(e.right.args) == 1 and isinstance(e.right.args[0], ast.Name) and not e.right.keywords):
        return [], f'(fill_like (to_float {cname(e.left.id)}) {cname(e.right.args[0].id)})'
    if isinstance(e, ast.Call) and _np_is(e.func, 'np', 'linspace') and len(e.args) == 3 and not e.keywords:
        effs, ts = [], []
        for a in e.args:
            eff, t = tr.E(a, env)
            effs += eff
            ts.append(t)
        return effs, f'(np_linspace {" ".join(ts)})'
    m = re.fullmatch(r"Attribute\(value=Attribute\(value=Name\(id='self'\), attr='(_[xyzfs])'\), attr='size'\)", d)
    if m:
        return [('st__', 'get')], f'(py_len (lb_{m.group(1)} st__))'
    if isinstance(e, ast.Call) and _np_is(e.func, 'np', 'array') and len(e.args) == 1 and not e.keywords and isinstance(e.args[0], ast.List):
        effs, ts = [], []
        for x in e.args[0].elts:
            eff, t = tr.E(x, env)
            effs += eff
            ts.append(f'(to_float {t})')
        return effs, '[' + '; '.join(ts) + ']'
    if (isinstance(e, ast.IfExp) and isinstance(e.test, ast.Compare) and len(e.test.ops) == 1 and isinstance(e.test.ops[0], ast.IsNot)
            and isinstance(e.test.comparators[0], ast.Constant) and e.test.comparators[0].value is None
            and isinstance(e.test.left, ast.Attribute) and dump(e.test.left) == dump(e.body) and dump(e.test.left.value) == "Name(id='self')"):
        eo, to = tr.E(e.orelse, env)          # self.a if self.a is not None else d
        if eo:
            raise Unsupported('effect in a default')
        return [], f'(match cfg_{e.body.attr} c with Some v__ => v__ | None => {to} end)'
    if isinstance(e, ast.Call) and isinstance(e.func, ast.Attribute) and isinstance(e.func.value, ast.Name) and e.func.value.id == 'np' \
            and e.func.attr != 'size':
        raise Unsupported(f'numpy call outside the subset: {d[:160]}')
    return None


def _s_lb(tr, s, rest, env, tail):
    if (isinstance(s, ast.Assign) and len(s.targets) == 1 and isinstance(s.targets[0], ast.Tuple) and dump(s.value) == _LB_MAP_OR
            and all(isinstance(x, ast.Name) for x in s.targets[0].elts)):
        names = [cname(x.id) for x in s.targets[0].elts]            # x, y, z = map(lambda k: k or 0, increment)
        body = tr.T(rest, env, tail)
        for n in reversed(names):
            body = f'let {n} := or0 {n} in {body}'
        return f"match increment with [{'; '.join(names)}] => {body} | _ => raise EValue end"
    if (isinstance(s, ast.Assign) and len(s.targets) == 1 and isinstance(s.targets[0], ast.Tuple) and all(isinstance(x, ast.Name) for x in s.targets[0].elts)
            and not isinstance(s.value, ast.Name)):
        names = [cname(x.id) for x in s.targets[0].elts]
        eff, t = tr.E(s.value, env)
        return tr.wrap(eff, f"match {t} with [{'; '.join(names)}] => {tr.T(rest, env, tail)} | _ => raise EValue end")
    return None


def translate_laserpath(src_dir: str) -> str:
    global METHODS, CFG_ATTRS, STATE_ATTRS, ORACLES, CFG_TYPE, LOCAL_ELT, EXTRA_PARAMS, MONAD, EXPR_HOOKS, STMT_SKIP, RECEIVERS, STMT_HOOKS
    saved = (METHODS, CFG_ATTRS, STATE_ATTRS, ORACLES, CFG_TYPE, LOCAL_ELT, EXTRA_PARAMS, MONAD, EXPR_HOOKS, STMT_SKIP, RECEIVERS, STMT_HOOKS)
    out = [PURE_PREAMBLE % ('laserpath.py', ' Path.Laser', 'LbState')]
    try:
        lp = ast.parse(pathlib.Path(src_dir, 'laserpath.py').read_text())
        cls = [n for n in lp.body if isinstance(n, ast.ClassDef) and n.name == 'LaserPath']
        if len(cls) != 1:
            raise Unsupported('class LaserPath not found')
        METHODS = {'init_point': ('property', [], 'list Q'),
                   'start': ('method', [('init_pos', 'option (list Q)'), ('speed_pos', 'option Q')], 'unit'),
                   'end': ('method', [], 'unit'),
                   'linear': ('method', [('increment', 'list (option Q)'), ('mode', 'string'), ('shutter', 'Z'), ('speed', 'option Q')], 'unit')}
        CFG_ATTRS = {'x_init', 'y_init', 'z_init', 'speed', 'speed_pos', 'speed_closed', 'warp_flag'}
        STATE_ATTRS = {'_x': 'lb__x', '_y': 'lb__y', '_z': 'lb__z', '_f': 'lb__f', '_s': 'lb__s'}
        ORACLES = {'add_path': ('lb_add_path', True, False, ['x', 'y', 'z', 'f', 's'], {}, ['asvec', 'asvec', 'asvec', 'asvec', 'asvec']),
                   'num_subdivisions': ('lb_num_sub', True, True, ['l_curve', 'speed'])}
        CFG_TYPE, LOCAL_ELT, EXTRA_PARAMS, MONAD = 'lb_cfg', {}, '', 'ML'
        EXPR_HOOKS, STMT_SKIP, RECEIVERS, STMT_HOOKS = [_h_lb], [], {'self'}, [_s_lb]
        tr = Tr(cls[0])
        out.append('\n'.join(f'Notation cfg_{a} := lb_{a}.' for a in sorted(CFG_ATTRS)) + '\n\n')
        for name in METHODS:
            out.append(tr.method(name) + '\n')
    finally:
        METHODS, CFG_ATTRS, STATE_ATTRS, ORACLES, CFG_TYPE, LOCAL_ELT, EXTRA_PARAMS, MONAD, EXPR_HOOKS, STMT_SKIP, RECEIVERS, STMT_HOOKS = saved
    return ''.join(out)

# ---- PGMCompiler.transform_points / flip / t_matrix / compensate (C02, C17): the order of the steps of the rigid map
_TP_FWARP = ("Call(func=Attribute(value=Call(func=Attribute(value=Name(id='np'), attr='array'), args=[Call(func=Attribute(value=Name(id='self'), attr='fwarp'), "
             "args=[Name(id='xy')], keywords=[])], keywords=[keyword(arg='dtype', value=Attribute(value=Name(id='np'), attr='float32'))]), attr='reshape'), "
             "args=[Attribute(value=Name(id='z_comp'), attr='shape')], keywords=[])")
_TP_XY = "Assign(targets=[Name(id='xy')], value=Call(func=Attribute(value=Name(id='np'), attr='column_stack'), args=[List(elts=[Name(id='x_comp'), Name(id='y_comp')])], keywords=[]))"


def _tp_entry(tr, x, env):
    """an entry of a matrix literal, as a rational"""
    if isinstance(x, ast.Constant) and isinstance(x.value, (int, float)) and not isinstance(x.value, bool):
        return [], cq(x.value)
    eff, t = tr.E(x, env)
    return eff, f'(to_float {t})'


def _h_tp(tr, e, env):
    d = dump(e)
    if isinstance(e, ast.Call) and _np_is(e.func, 'np', 'asarray') and len(e.args) == 1 and [k.arg for k in e.keywords] == ['dtype'] \
            and _np_is(e.keywords[0].value, 'np', 'float32'):
        eff, t = tr.E(e.args[0], env)
        return eff, f'(as_f32 ri {t})'
    m = re.fullmatch(r"BinOp\(left=Name\(id='(\w+)'\), op=Sub\(\), right=Subscript\(value=Attribute\(value=Name\(id='self'\), attr='shift_origin'\), "
                     r"slice=Constant\(value=([01])\)\)\)", d)
    if m:
        return [], f"(sub_f32 ro {cname(m.group(1))} (cfg_shift_{'xy'[int(m.group(2))]} c))"
    if isinstance(e, ast.Call) and _np_is(e.func, 'np', 'array') and len(e.args) == 1 and not e.keywords:
        a = e.args[0]
        if isinstance(a, ast.List) and a.elts and all(isinstance(r, ast.List) for r in a.elts):
            effs, rows = [], []
            for r in a.elts:
                ts = []
                for x in r.elts:
                    eff, t = _tp_entry(tr, x, env)
                    effs += eff
                    ts.append(t)
                rows.append('[' + '; '.join(ts) + ']')
            return effs, '[' + '; '.join(rows) + ']'
        if isinstance(a, ast.List) and a.elts and all(isinstance(r, ast.Name) for r in a.elts):
            return [], '[' + '; '.join(cname(r.id) for r in a.elts) + ']'          # np.array([xc, yc]): the vectors as rows
        if isinstance(a, ast.Name):
            return [], cname(a.id)
        raise Unsupported(f'np.array of {d[:120]}')
    if isinstance(e, ast.Call) and isinstance(e.func, ast.Attribute) and dump(e.func.value) == "Name(id='copy')" and e.func.attr == 'deepcopy' and len(e.args) == 1:
        return tr.E(e.args[0], env)               # a copy: values are immutable here (C09 checks that the caller's arrays are left alone)
    if isinstance(e, ast.Call) and isinstance(e.func, ast.Attribute) and isinstance(e.func.value, ast.Name) and e.func.value.id == 'np' \
            and e.func.attr in ('cos', 'sin') and len(e.args) == 1 and dump(e.args[0]) == "Attribute(value=Name(id='self'), attr='rotation_angle')":
        return [], f'(cfg_{e.func.attr} c)'
    if isinstance(e, ast.BinOp) and isinstance(e.op, ast.MatMult):
        e1, t1 = tr.E(e.left, env)
        e2, t2 = tr.E(e.right, env)
        return e1 + e2, f'(matmul {t1} {t2})'
    if isinstance(e, ast.Call) and _np_is(e.func, 'np', 'matmul') and len(e.args) == 2 and not e.keywords:
        e1, t1 = tr.E(e.args[0], env)
        e2, t2 = tr.E(e.args[1], env)
        return e1 + e2, f'(matmul {t1} {t2})'
    if isinstance(e, ast.Attribute) and e.attr == 'T':
        eff, t = tr.E(e.value, env)
        return eff, f'(mT {t})'
    if (isinstance(e, ast.Call) and _np_is(e.func, 'np', 'stack') and len(e.args) == 1 and isinstance(e.args[0], ast.Tuple)
            and all(isinstance(x, ast.Name) for x in e.args[0].elts) and len(e.keywords) == 1 and e.keywords[0].arg == 'axis'
            and _np_const_index(e.keywords[0].value) == -1):
        return [], '(stack_last [' + '; '.join(cname(x.id) for x in e.args[0].elts) + '])'
    if d == _TP_FWARP:
        return [], '(surface ro srf x_comp y_comp)'
    if isinstance(e, ast.Call) and isinstance(e.func, ast.Attribute) and isinstance(e.func.value, ast.Name) and e.func.value.id == 'np':
        raise Unsupported(f'numpy call outside the subset: {d[:160]}')
    return None


def _s_tp(tr, s, rest, env, tail):
    d = dump(s)
    if d == _TP_XY:
        return tr.T(rest, env, tail)              # only handed to self.fwarp (matched together with it)
    if isinstance(s, ast.AugAssign) and isinstance(s.op, ast.Add) and isinstance(s.target, ast.Name) and isinstance(s.value, ast.Name):
        n = cname(s.target.id)
        return f'let {n} := add_f32 ro {n} {cname(s.value.id)} in {tr.T(rest, env, tail)}'
    if (isinstance(s, ast.Assign) and len(s.targets) == 1 and isinstance(s.targets[0], ast.Tuple) and all(isinstance(x, ast.Name) for x in s.targets[0].elts)
            and not isinstance(s.value, ast.Name)):
        names = [cname(x.id) for x in s.targets[0].elts]
        eff, t = tr.E(s.value, env)
        return tr.wrap(eff, f"match {t} with [{'; '.join(names)}] => {tr.T(rest, env, tail)} | _ => raise EValue end")
    return None


_TP_HEADER = """Section Src.
Context (ri ro : Q -> Q) (srf : Q -> Q -> Q).

"""


def translate_transform(src_dir: str) -> str:
    global METHODS, CFG_ATTRS, STATE_ATTRS, ORACLES, CFG_TYPE, LOCAL_ELT, EXTRA_PARAMS, MONAD, EXPR_HOOKS, STMT_SKIP, RECEIVERS, STMT_HOOKS
    saved = (METHODS, CFG_ATTRS, STATE_ATTRS, ORACLES, CFG_TYPE, LOCAL_ELT, EXTRA_PARAMS, MONAD, EXPR_HOOKS, STMT_SKIP, RECEIVERS, STMT_HOOKS)
    out = [PURE_PREAMBLE % ('pgmcompiler.py', '', 'TpState'), _TP_HEADER]
    try:
        mod = ast.parse(pathlib.Path(src_dir, 'pgmcompiler.py').read_text())
        cls = [n for n in mod.body if isinstance(n, ast.ClassDef) and n.name == 'PGMCompiler']
        if len(cls) != 1:
            raise Unsupported('class PGMCompiler not found')
        METHODS = {'t_matrix': ('property', [], 'mat'),
                   'flip': ('method', [('xc', 'vec'), ('yc', 'vec')], 'list vec'),
                   'compensate': ('method', [('x', 'vec'), ('y', 'vec'), ('z', 'vec')], 'list vec'),
                   'transform_points': ('method', [('x', 'vec'), ('y', 'vec'), ('z', 'vec')], 'mat')}
        CFG_ATTRS, STATE_ATTRS, ORACLES = {'flip_x', 'flip_y', 'neff', 'warp_flag', 'cos', 'sin', 'shift_x', 'shift_y'}, {}, {}
        CFG_TYPE, LOCAL_ELT, EXTRA_PARAMS, MONAD = 'tp_cfg', {}, '', 'MT'
        EXPR_HOOKS, STMT_SKIP, RECEIVERS, STMT_HOOKS = [_h_tp], [], {'self'}, [_s_tp]
        tr = Tr(cls[0])
        out.append('\n'.join(f'Notation cfg_{a} := tp_{a}.' for a in sorted(CFG_ATTRS)) + '\n\n')
        for name in METHODS:
            out.append(tr.method(name) + '\n')
        out.append('End Src.\n')
    finally:
        METHODS, CFG_ATTRS, STATE_ATTRS, ORACLES, CFG_TYPE, LOCAL_ELT, EXTRA_PARAMS, MONAD, EXPR_HOOKS, STMT_SKIP, RECEIVERS, STMT_HOOKS = saved
    return ''.join(out)

# ---- WaveguideWriter.pgm / NasuWriter.pgm / MarkerWriter.pgm (C08): which file is compiled, and that an empty writer compiles none
_WN_STEM = "Attribute(value=Call(func=Attribute(value=Name(id='pathlib'), attr='Path'), args=[Attribute(value=Name(id='self'), attr='filename')], keywords=[]), attr='stem')"
_WN_COPY = "Call(func=Name(id='dict'), args=[Call(func=Attribute(value=Attribute(value=Name(id='self'), attr='_param'), attr='copy'), args=[], keywords=[])], keywords=[])"


def _h_wn(tr, e, env):
    d = dump(e)
    if d == "Attribute(value=Name(id='self'), attr='obj_list')":
        return [], '(wn_has_objects c)'
    if d == _WN_STEM:
        return [], '(path_stem (wn_filename c))'
    return None


def _s_wn(tr, s, rest, env, tail):
    d = dump(s)
    if isinstance(s, ast.Assign) and len(s.targets) == 1 and isinstance(s.targets[0], ast.Name) and (dump(s.value) == _WN_COPY or
            (isinstance(s.value, ast.Constant) and isinstance(s.value.value, float) and s.targets[0].id.endswith('_fab_time'))):
        return tr.T(rest, env, tail)          # the parameter dictionary is copied; the time estimate is C12's subject
    if (isinstance(s, ast.Assign) and len(s.targets) == 1 and isinstance(s.targets[0], ast.Subscript) and isinstance(s.targets[0].value, ast.Name)
            and isinstance(s.targets[0].slice, ast.Constant)):
        if s.targets[0].slice.value != 'filename':
            raise Unsupported(f'compiler parameter {s.targets[0].slice.value!r} overridden')
        eff, t = tr.E(s.value, env)
        return tr.wrap(eff, f'let {cname(s.targets[0].value.id)}__file := {t} in {tr.T(rest, env, tail)}')
    if isinstance(s, ast.With) and len(s.items) == 1:
        m = re.fullmatch(r"Call\(func=Name\(id='PGMCompiler'\), args=\[\], keywords=\[keyword\(value=Name\(id='(\w+)'\)\)\]\)", dump(s.items[0].context_expr))
        if m and dump(s.items[0].optional_vars) == "Name(id='G')":
            for n in ast.walk(ast.Module(body=s.body, type_ignores=[])):
                if isinstance(n, ast.Call) and isinstance(n.func, ast.Name) and n.func.id == 'PGMCompiler':
                    raise Unsupported('a second compiler inside the with block')
            return f'wemit (WBegin {cname(m.group(1))}__file) ;;; wemit WEnd ;;; {tr.T(rest, env, tail)}'      # its body: SrcWr.v
        raise Unsupported('with statement other than `with PGMCompiler(**param) as G:`')
    if isinstance(s, ast.Delete) and d == "Delete(targets=[Name(id='G', ctx=Del())])":
        return tr.T(rest, env, tail)
    if isinstance(s, ast.If) and dump(s.test) == "Name(id='verbose')" and not s.orelse:
        if any(isinstance(n, ast.Call) and isinstance(n.func, ast.Name) and n.func.id in ('PGMCompiler', 'open') for n in ast.walk(s)):
            raise Unsupported('a file written under `if verbose`')
        if any(isinstance(n, (ast.Attribute, ast.Subscript, ast.Name)) and isinstance(n.ctx, (ast.Store, ast.Del)) for n in ast.walk(s)):
            raise Unsupported('something is stored under `if verbose` (the estimate must not depend on the verbosity: C09)')
        return tr.T(rest, env, tail)          # prints only
    if d == "Expr(value=Call(func=Attribute(value=Attribute(value=Name(id='self'), attr='_instructions'), attr='clear'), args=[], keywords=[]))":
        return tr.T(rest, env, tail)
    if d == "Assign(targets=[Attribute(value=Name(id='self'), attr='_total_dwell_time')], value=Constant(value=0.0))":
        return tr.T(rest, env, tail)          # the writer's own (unused) compiler state
    if re.fullmatch(r"Assign\(targets=\[Attribute\(value=Name\(id='self'\), attr='_fabtime'\)\], value=Name\(id='_\w+_fab_time'\)\)", d):
        return f'wemit WFab ;;; {tr.T(rest, env, tail)}'      # the estimate of this export is stored (its value: C12's subject)
    return None


def translate_writer_names(src_dir: str) -> str:
    global METHODS, CFG_ATTRS, STATE_ATTRS, ORACLES, CFG_TYPE, LOCAL_ELT, EXTRA_PARAMS, MONAD, EXPR_HOOKS, STMT_SKIP, RECEIVERS, STMT_HOOKS
    saved = (METHODS, CFG_ATTRS, STATE_ATTRS, ORACLES, CFG_TYPE, LOCAL_ELT, EXTRA_PARAMS, MONAD, EXPR_HOOKS, STMT_SKIP, RECEIVERS, STMT_HOOKS)
    out = [PURE_PREAMBLE % ('writer.py', ' Persist.Paths', 'WnState')]
    try:
        mod = ast.parse(pathlib.Path(src_dir, 'writer.py').read_text())
        for cls_name, tag in (('WaveguideWriter', 'wg'), ('NasuWriter', 'nwg'), ('MarkerWriter', 'mk')):
            cls = [n for n in mod.body if isinstance(n, ast.ClassDef) and n.name == cls_name]
            if len(cls) != 1:
                raise Unsupported(f'class {cls_name} not found in writer.py')
            METHODS = {'pgm': ('method', [('verbose', 'bool')], 'unit')}
            CFG_ATTRS, STATE_ATTRS, ORACLES = set(), {}, {}
            CFG_TYPE, LOCAL_ELT, EXTRA_PARAMS, MONAD = 'wn_cfg', {}, '', 'MW'
            EXPR_HOOKS, STMT_SKIP, RECEIVERS, STMT_HOOKS = [_h_wn], [], {'self'}, [_s_wn]
            out.append(Tr(cls[0]).method('pgm').replace('Definition src_pgm ', f'Definition src_pgm_{tag} ', 1) + '\n')
    finally:
        METHODS, CFG_ATTRS, STATE_ATTRS, ORACLES, CFG_TYPE, LOCAL_ELT, EXTRA_PARAMS, MONAD, EXPR_HOOKS, STMT_SKIP, RECEIVERS, STMT_HOOKS = saved
    return ''.join(out)

# ---- Device.pgm (C09): the estimate reported after an export is rebuilt from nothing on every export
_RP_ITEMS = "Call(func=Attribute(value=Attribute(value=Name(id='self'), attr='writers'), attr='items'), args=[], keywords=[])"


def _s_rp(tr, s, rest, env, tail):
    d = dump(s)
    if (isinstance(s, ast.Assign) and len(s.targets) == 1 and dump(s.targets[0]) == "Attribute(value=Name(id='self'), attr='fabrication_time')"
            and isinstance(s.value, ast.Constant) and isinstance(s.value.value, float)):
        return f'rp_set (TConst {cq(s.value.value)}) ;;; {tr.T(rest, env, tail)}'
    if isinstance(s, ast.For) and not s.orelse and dump(s.iter) == _RP_ITEMS and dump(s.target) == "Tuple(elts=[Name(id='key'), Name(id='writer')])":
        for n in ast.walk(ast.Module(body=s.body, type_ignores=[])):
            if isinstance(n, (ast.Break, ast.Continue, ast.Return)):
                raise Unsupported('break / continue / return inside the loop over self.writers')
        return f'for_writers (rp_writers c) (fun writer => {tr.T(list(s.body), env, "ret tt")}) ;;; {tr.T(rest, env, tail)}'
    if d == "Assign(targets=[Name(id='writer')], value=Call(func=Name(id='cast'), args=[Subscript(value=Name(id='Union'), slice=Tuple(elts=[Name(id='WaveguideWriter'), Name(id='NasuWriter'), Name(id='TrenchWriter'), Name(id='UTrenchWriter'), Name(id='MarkerWriter')])), Name(id='writer')], keywords=[]))":
        return tr.T(rest, env, tail)          # typing.cast returns its argument
    if d == "Expr(value=Call(func=Attribute(value=Name(id='writer'), attr='pgm'), args=[], keywords=[keyword(arg='verbose', value=Name(id='verbose'))]))":
        return f'rp_call_pgm writer ;;; {tr.T(rest, env, tail)}'
    if d == "AugAssign(target=Attribute(value=Name(id='self'), attr='fabrication_time'), op=Add(), value=Attribute(value=Name(id='writer'), attr='_fabtime'))":
        return f'rp_add_fabtime writer ;;; {tr.T(rest, env, tail)}'
    if isinstance(s, ast.If) and not s.orelse and all(isinstance(x, ast.Expr) and isinstance(x.value, ast.Call) and isinstance(x.value.func, ast.Name)
                                                       and x.value.func.id == 'print' for x in s.body):
        for n in ast.walk(s.test):
            if isinstance(n, (ast.Call, ast.NamedExpr)):
                raise Unsupported('a call in the condition of a print-only block')
        return tr.T(rest, env, tail)
    return None


def translate_repeat(src_dir: str) -> str:
    global METHODS, CFG_ATTRS, STATE_ATTRS, ORACLES, CFG_TYPE, LOCAL_ELT, EXTRA_PARAMS, MONAD, EXPR_HOOKS, STMT_SKIP, RECEIVERS, STMT_HOOKS
    saved = (METHODS, CFG_ATTRS, STATE_ATTRS, ORACLES, CFG_TYPE, LOCAL_ELT, EXTRA_PARAMS, MONAD, EXPR_HOOKS, STMT_SKIP, RECEIVERS, STMT_HOOKS)
    out = [PURE_PREAMBLE % ('device.py', '', 'RpState')]
    try:
        mod = ast.parse(pathlib.Path(src_dir, 'device.py').read_text())
        cls = [n for n in mod.body if isinstance(n, ast.ClassDef) and n.name == 'Device']
        if len(cls) != 1:
            raise Unsupported('class Device not found in device.py')
        # every other store to the estimate in the class must be the initialisation in __init__
        for fn in cls[0].body:
            if isinstance(fn, ast.FunctionDef) and fn.name not in ('pgm', '__init__'):
                for n in ast.walk(fn):
                    if isinstance(n, ast.Attribute) and n.attr == 'fabrication_time' and isinstance(n.ctx, (ast.Store, ast.Del)):
                        raise Unsupported(f'Device.{fn.name} stores to self.fabrication_time')
        METHODS = {'pgm': ('method', [('verbose', 'bool')], 'unit')}
        CFG_ATTRS, STATE_ATTRS, ORACLES = set(), {}, {}
        CFG_TYPE, LOCAL_ELT, EXTRA_PARAMS, MONAD = 'rp_cfg', {}, '', 'MR'
        EXPR_HOOKS, STMT_SKIP, RECEIVERS, STMT_HOOKS = [], [], {'self'}, [_s_rp]
        out.append(Tr(cls[0]).method('pgm').replace('Definition src_pgm ', 'Definition src_device_pgm ', 1) + '\n')
    finally:
        METHODS, CFG_ATTRS, STATE_ATTRS, ORACLES, CFG_TYPE, LOCAL_ELT, EXTRA_PARAMS, MONAD, EXPR_HOOKS, STMT_SKIP, RECEIVERS, STMT_HOOKS = saved
    return ''.join(out)

# ---- Trench.toolpath, length view (C09): what the generator leaves in self._wall_length / self._floor_length
def _h_rt_hatch(tr, e, env):
    r = _h_hatch(tr, e, env)
    if r is not None:
        pn = cname(e.args[0].func.value.id)
        v = env.fresh('hatching')
        return [(v, f'(rt_zigzag G {pn})')], v


def _s_rt(tr, s, rest, env, tail):
    d = dump(s)
    if d == "Assign(targets=[Attribute(value=Name(id='self'), attr='_wall_length')], value=Attribute(value=Attribute(value=Name(id='self'), attr='block'), attr='length'))":
        return f'rt_set_wall (LLen (cfg_block c)) ;;; {tr.T(rest, env, tail)}'
    if (isinstance(s, ast.Assign) and len(s.targets) == 1 and dump(s.targets[0]) == "Attribute(value=Name(id='self'), attr='_floor_length')"
            and isinstance(s.value, ast.Constant) and isinstance(s.value.value, float)):
        return f'rt_set_floor (LConst {cq(s.value.value)}) ;;; {tr.T(rest, env, tail)}'
    m = re.fullmatch(r"AugAssign\(target=Attribute\(value=Name\(id='self'\), attr='_floor_length'\), op=Add\(\), value=Attribute\(value=Name\(id='(\w+)'\), attr='length'\)\)", d)
    if m and m.group(1) != 'self':
        return f'rt_add_floor (LLen {cname(m.group(1))}) ;;; {tr.T(rest, env, tail)}'
    for n in ast.walk(s) if not isinstance(s, (ast.For, ast.If, ast.While, ast.With, ast.Try)) else []:
        if isinstance(n, ast.Attribute) and n.attr in ('_floor_length', '_wall_length') and isinstance(n.ctx, (ast.Store, ast.Del)):
            raise Unsupported(f'store to self.{n.attr}: {d[:160]}')
    return None


def translate_lengths(src_dir: str) -> str:
    global METHODS, CFG_ATTRS, STATE_ATTRS, ORACLES, CFG_TYPE, LOCAL_ELT, EXTRA_PARAMS, MONAD, EXPR_HOOKS, STMT_SKIP, RECEIVERS, STMT_HOOKS
    saved = (METHODS, CFG_ATTRS, STATE_ATTRS, ORACLES, CFG_TYPE, LOCAL_ELT, EXTRA_PARAMS, MONAD, EXPR_HOOKS, STMT_SKIP, RECEIVERS, STMT_HOOKS)
    out = [PURE_PREAMBLE % ('trench.py', ' Trench.Toolpath', 'TrState RtState')]
    try:
        mod = ast.parse(pathlib.Path(src_dir, 'trench.py').read_text())
        cls = [n for n in mod.body if isinstance(n, ast.ClassDef) and n.name == 'Trench']
        if len(cls) != 1:
            raise Unsupported('class Trench not found in trench.py')
        # outside toolpath the two lengths are stored by __init__ (constants) and by zigzag (`self._floor_length += <expr>`, the accumulator LZig) only
        for fn in cls[0].body:
            if isinstance(fn, (ast.FunctionDef, ast.AsyncFunctionDef)) and fn.name != 'toolpath':
                for st in ast.walk(fn):
                    tgs = st.targets if isinstance(st, (ast.Assign, ast.Delete)) else [st.target] if isinstance(st, (ast.AugAssign, ast.AnnAssign)) else []
                    for tg in tgs:
                        for n in ast.walk(tg):
                            if isinstance(n, ast.Attribute) and n.attr in ('_floor_length', '_wall_length'):
                                ok = (fn.name == '__init__' and isinstance(st, (ast.Assign, ast.AnnAssign)) and isinstance(st.value, ast.Constant)) or \
                                     (fn.name == 'zigzag' and isinstance(st, ast.AugAssign) and isinstance(st.op, ast.Add) and n.attr == '_floor_length')
                                if not ok:
                                    raise Unsupported(f'Trench.{fn.name} stores to self.{n.attr}')
                for n in ast.walk(fn):
                    if isinstance(n, ast.Call) and isinstance(n.func, ast.Name) and n.func.id in ('setattr', 'delattr'):
                        raise Unsupported(f'Trench.{fn.name} uses {n.func.id}')
        # zigzag is read as the opaque accumulator LZig: it must run to its end on every call (one `return`, the last statement) and keep
        # nothing on the object between calls (no store through `self` other than `self._floor_length += ...`): a memoised hatching that
        # skips the accumulation on a later call leaves the subset
        zz = [fn for fn in cls[0].body if isinstance(fn, ast.FunctionDef) and fn.name == 'zigzag']
        if len(zz) != 1:
            raise Unsupported('Trench.zigzag not found')
        rets = [n for n in ast.walk(zz[0]) if isinstance(n, ast.Return)]
        if len(rets) != 1 or zz[0].body[-1] is not rets[0]:
            raise Unsupported('Trench.zigzag returns before its end')
        if zz[0].decorator_list:
            raise Unsupported('Trench.zigzag is decorated')
        for n in ast.walk(zz[0]):
            if isinstance(n, (ast.Attribute, ast.Subscript)) and isinstance(n.ctx, (ast.Store, ast.Del)):
                base = n
                while isinstance(base, (ast.Attribute, ast.Subscript)):
                    base = base.value
                if isinstance(base, ast.Name) and base.id == 'self' and not (isinstance(n, ast.Attribute) and n.attr == '_floor_length'):
                    raise Unsupported(f'Trench.zigzag stores through self: {dump(n)[:120]}')
            if isinstance(n, (ast.Global, ast.Nonlocal)):
                raise Unsupported('Trench.zigzag uses global / nonlocal')
        METHODS = {'toolpath': ('generator', [], 'unit')}
        CFG_ATTRS, STATE_ATTRS, ORACLES = {'block', 'num_insets'}, {}, {}
        CFG_TYPE, LOCAL_ELT, EXTRA_PARAMS, MONAD = 'tr_cfg Poly', {}, '{Poly : Type} (G : geom Poly) ', 'ML Poly'
        EXPR_HOOKS, STMT_SKIP, RECEIVERS, STMT_HOOKS = [_h_is_empty, _h_inset, _h_rt_hatch, _h_size, _h_contour], [], {'self'}, [_s_rt]
        out.append('Notation cfg_block := tr_block.\nNotation cfg_num_insets := tr_num_insets.\n\n')
        out.append(Tr(cls[0]).method('toolpath').replace('Definition src_toolpath ', 'Definition src_toolpath_len ', 1) + '\n')
    finally:
        METHODS, CFG_ATTRS, STATE_ATTRS, ORACLES, CFG_TYPE, LOCAL_ELT, EXTRA_PARAMS, MONAD, EXPR_HOOKS, STMT_SKIP, RECEIVERS, STMT_HOOKS = saved
    return ''.join(out)


def main(argv):
    """py2coq.py <dir of femto sources> <output dir> <group>...   groups: pgm (PgmSrc.v), SrcLp.v, SrcNw.v, SrcTc.v, SrcTr.v"""
    if len(argv) < 3:
        print(main.__doc__, file=sys.stderr)
        return 2
    src_dir, out_dir, groups = pathlib.Path(argv[0]), pathlib.Path(argv[1]), argv[2:]
    for g in groups:
        try:
            if g == 'pgm':
                name, text = 'PgmSrc.v', translate(str(src_dir / 'pgmcompiler.py'))
            elif g == 'SrcWr.v':
                name, text = g, translate_writers(str(src_dir))
            elif g == 'SrcAe.v':
                name, text = g, translate_append_extend(str(src_dir))
            elif g == 'SrcUf.v':
                name, text = g, translate_views(str(src_dir))
            elif g == 'SrcMk.v':
                name, text = g, translate_marker(str(src_dir))
            elif g == 'SrcAp.v':
                name, text = g, translate_add_path(str(src_dir))
            elif g == 'SrcRi.v':
                name, text = g, translate_raster(str(src_dir))
            elif g == 'SrcLb.v':
                name, text = g, translate_laserpath(str(src_dir))
            elif g == 'SrcTp.v':
                name, text = g, translate_transform(str(src_dir))
            elif g == 'SrcWn.v':
                name, text = g, translate_writer_names(str(src_dir))
            elif g == 'SrcRt.v':
                name, text = g, translate_lengths(str(src_dir))
            elif g == 'SrcRp.v':
                name, text = g, translate_repeat(str(src_dir))
            elif g == 'SrcSs.v':
                name, text = g, translate_sheet(str(src_dir))
            elif g == 'SrcTn.v':
                name, text = g, translate_tree_names(str(src_dir))
            elif g == 'SrcPa.v':
                name, text = g, translate_persist(str(src_dir)) + translate_close(str(src_dir))
            elif g == 'SrcHl.v':
                name, text = g, translate_helpers(str(src_dir))
            elif g == 'SrcDev.v':
                name, text = g, translate_device(str(src_dir))
            elif g == 'SrcFc.v':
                name, text = g, translate_writers(str(src_dir), FARCALL_SPEC)
            else:
                spec = [sp for sp in PURE_SPECS if sp['out'] == g][0]
                name, text = g, translate_pure(str(src_dir), spec)
        except Unsupported as e:
            print(f'py2coq: unsupported construct ({g}): {e}', file=sys.stderr)
            return 3
        except (SyntaxError, OSError) as e:
            print(f'py2coq: cannot read the source for {g}: {e}', file=sys.stderr)
            return 3
        (out_dir / name).write_text(text)
    return 0


if __name__ == '__main__':
    sys.exit(main(sys.argv[1:]))
