"""C18 - the fabrication spreadsheet lists every structure once with true values."""
from __future__ import annotations

import numpy as np

import builders
import common
import pgm
from common import cq, cb, clist, copt, cnat, frac

IMPORTS = 'From Coq Require Import String.\nFrom Femto Require Import Sheet.Table.\nOpen Scope string_scope.'
ASSUMPTIONS = [
    'xlsxwriter / openpyxl are oracles: the sheet is read back with openpyxl and compared cell by cell',
    'marker rows carry the centre x under Yin and the centre y under Yout, as the code does (interpretation recorded in DESIGN.md)',
    'preamble values are compared after parsing the printed number back (the model does not format floats)',
]

PRE_FIELDS = {'wl', 'duration', 'reprate', 'power', 'speed', 'scan', 'depth'}
TAGS = ['name', 'power', 'speed', 'scan', 'radius', 'int_dist', 'depth', 'yin', 'yout', 'obs', 'int_length', 'arm_length',
        'wl', 'reprate', 'duration', 'pin']


def cs(s):
    assert '"' not in s
    return '"%s"' % s


def col_info():
    import femto.device  # noqa: F401  (femto.spreadsheet imports it back)
    from femto.spreadsheet import generate_all_cols_data
    ac = generate_all_cols_data()
    info = {}
    for tag, full, unit, width, fmt in ac:
        tag = str(tag)
        fmt = str(fmt)
        ty = 'TText' if fmt in 'text title' else ('TFloat' if '.' in fmt else 'TInt')
        title = f'{full} / {unit}' if unit != '' else f'{full}'
        info[tag] = (ty, str(title))
        RAW[tag] = (str(tag), str(full), str(unit), int(width), fmt)
    return info


RAW = {}


def aval_lit(v):
    if v is None:
        return 'ANone'
    if isinstance(v, str):
        return '(AText %s)' % cs(v)
    return '(ANum %s)' % cq(frac(v))


def cell_lit(v):
    if v is None or v == '':
        return 'CBlank'
    if isinstance(v, str):
        return '(CText %s)' % cs(v)
    return '(CNum %s)' % cq(frac(v))


def gen_device(rng):
    from femto.device import Device
    n_wg = rng.choice([1, 2, 3, 5, 8, 12]) if rng.random() < 0.85 else 0
    n_mk = rng.choice([0, 0, 1, 2, 4])
    if n_wg + n_mk == 0:
        n_wg = 1
    same = rng.random() < 0.4
    near = rng.random() < 0.3          # numeric columns whose values differ only in the 6th significant digit: not constant
    if near:
        n_wg, n_mk = rng.choice([2, 3, 4]), (0 if rng.random() < 0.7 else n_mk)
    base_speed = rng.choice([5.0, 20.0, 7.5])
    objs = []
    for i in range(n_wg):
        param, calls = builders.gen_wg_calls(rng, max_ops=2, closed_linear=False)
        param['cmd_rate_max'] = 20
        param['speed'] = base_speed if same or rng.random() < 0.5 else rng.choice([5.0, 20.0, 7.5, 33.0])
        param['scan'] = 3 if same else rng.randint(1, 5)
        param['name'] = rng.choice([None, 'wg%d' % i, 'a-long-waveguide-name-%02d' % i if rng.random() < 0.15 else 'w'])
        calls[0] = ('start', [-2.0, rng.choice([0.0, 0.08, 0.16, 0.24, 0.08, 1.5]) + (0 if rng.random() < 0.7 else 0.001 * i), 0.035])
        wg = builders.build_wg(param, calls)
        for attr, vals in (('power', [300.0, 250.5, 300.0]), ('obs', ['ok', '', 'check']), ('wl', [1.03]), ('reprate', [1.0, 0.5]),
                           ('pin', [120000.0, 3.5])):
            if rng.random() < 0.4:
                setattr(wg, attr, rng.choice(vals))
        if near:
            wg.power = 312.4561 + 0.0007 * i
            wg.speed = base_speed * (1 + 2e-6 * i)
            wg.reprate = 1.0 + 3e-6 * (i % 3)
        objs.append(wg)
    grouped = rng.random() < 0.3 and n_wg >= 2
    mks = []
    for i in range(n_mk):
        param, call = builders.gen_marker_call(rng)
        param['name'] = rng.choice([None, 'mk%d' % i])
        mk = builders.build_marker(param, call)
        if mk.points.ndim == 2 and mk.path3d[0].size:
            mks.append(mk)
    with pgm.quiet():
        dev = Device(filename='dev.pgm', laser='PHAROS')
        if grouped:
            dev.extend([objs[:2]] + objs[2:])
        elif objs:
            dev.extend(list(objs))
        if mks:
            dev.extend(list(mks))
    dev._verif_near = near
    return dev, objs, mks


def read_back(path, info, n_rows):
    import openpyxl
    ws = openpyxl.load_workbook(path).active
    title_to_tag = {t: tag for tag, (ty, t) in info.items()}
    cols = []
    c = 6
    while ws.cell(row=8, column=c).value is not None:
        cols.append(title_to_tag.get(ws.cell(row=8, column=c).value, '?'))
        c += 1
    rows = []
    r = 10
    while any(ws.cell(row=r, column=6 + j).value is not None for j in range(len(cols))) or len(rows) < n_rows:
        rows.append([ws.cell(row=r, column=6 + j).value for j in range(len(cols))])
        r += 1
        if r > 10 + n_rows + 5:
            break
    pre = {}
    for rr in range(1, 80):
        nm = ws.cell(row=rr, column=2).value
        if isinstance(nm, str):
            pre[nm.lower()] = ws.cell(row=rr, column=3).value
    return cols, rows, pre


def run_case(rng, info):
    from femto.spreadsheet import Spreadsheet
    dev, objs, mks = gen_device(rng)
    k = rng.randint(2, 8)
    sel = ['name'] + rng.sample(TAGS[1:], k) if rng.random() < 0.8 else rng.sample(TAGS, k)
    if 'name' not in sel:
        sel = ['name'] + sel           # the constructor prepends it
    suppr, static = rng.random() < 0.6, rng.random() < 0.4
    if getattr(dev, '_verif_near', False):
        sel = sel + [t for t in ('power', 'speed') if t not in sel]
        suppr = suppr or rng.random() < 0.8
    # a spreadsheet may redefine a built-in column (new_columns): here one numeric column of the selection gets the other
    # kind of number format (float <-> integer), for this spreadsheet only
    redefined = None
    numeric = [t for t in sel if info[t][0] in ('TFloat', 'TInt') and t not in ('yin', 'yout')]
    if numeric and rng.random() < 0.2:
        t = rng.choice(numeric)
        tag, full, unit, width, fmt = RAW[t]
        newfmt, newty = ('0', 'TInt') if info[t][0] == 'TFloat' else ('0.000', 'TFloat')
        redefined = (tag, full, unit, width, newfmt)
        info = dict(info)
        info[t] = (newty, info[t][1])
    earlier = rng.random() < 0.4
    if earlier:
        # the same device was already written to another book (a short one) before this one
        with pgm.quiet():
            with Spreadsheet(device=dev, columns_names='name ' + rng.choice(['speed', 'scan power', 'yin yout']), book_name='book0.xlsx',
                             suppr_redd_cols=rng.random() < 0.5, static_preamble=rng.random() < 0.5) as ss0:
                ss0.write_structures(verbose=False)
    with pgm.quiet():
        with Spreadsheet(device=dev, columns_names=' '.join(sel), book_name='book.xlsx', suppr_redd_cols=suppr,
                         static_preamble=static, new_columns=[redefined] if redefined else None) as ss:
            ss.write_structures(verbose=False)
    structs = objs + mks
    cols, rows, pre = read_back('book.xlsx', info, len(structs))
    # observed preamble state of the selected fields
    pre_obs = []
    for t in sel:
        if t not in PRE_FIELDS:
            continue
        if t not in pre:
            pre_obs.append('(%s, PRemoved)' % cs(t))
        elif pre[t] is None or pre[t] == '':
            continue                                   # untouched
        elif pre[t] == 'variable':
            pre_obs.append('(%s, PVariable)' % cs(t))
        else:
            try:
                pre_obs.append('(%s, PValue (VNum %s))' % (cs(t), cq(frac(float(pre[t])))))
            except (TypeError, ValueError):
                pre_obs.append('(%s, PValue (VText %s))' % (cs(t), cs(str(pre[t]))))
    cols_lit = clist('{| c_tag := %s; c_type := %s; c_pre := %s |}' % (cs(t), info[t][0], cb(t in PRE_FIELDS)) for t in sel)

    def raw(o, wg):
        x, y, _z = o.path3d
        attrs = []
        for t in sel:
            if t in ('yin', 'yout'):
                attrs.append('ANone')
            else:
                attrs.append(aval_lit(getattr(o, t, None)))
        return '{| r_wg := %s; r_xs := %s; r_ys := %s; r_attr := %s |}' % (
            cb(wg), clist(cq(frac(v)) for v in x), clist(cq(frac(v)) for v in y), clist(attrs))
    structs_lit = clist([raw(o, True) for o in objs] + [raw(o, False) for o in mks])
    out = '{| sh_cols := %s; sh_rows := %s; sh_pre := %s |}' % (
        clist(cs(c) for c in cols), clist(clist(cell_lit(v) for v in r) for r in rows), clist(pre_obs))
    lit = ('{| k_suppr := %s; k_static := %s; k_cols := %s; k_yin := %s; k_yout := %s; k_structs := %s; k_out := %s |}' % (
        cb(suppr), cb(static), cols_lit, copt(cnat(sel.index('yin')) if 'yin' in sel else None),
        copt(cnat(sel.index('yout')) if 'yout' in sel else None), structs_lit, out))
    long_name = any(isinstance(getattr(o, 'name', None), str) and len(o.name) > 20 for o in structs)
    big = any(isinstance(getattr(o, t, None), (int, float)) and getattr(o, t) >= 1e5 for o in structs for t in sel if t not in ('yin', 'yout'))
    descr = {'columns': sel, 'suppr': suppr, 'static': static, 'new_columns': redefined, 'device_written_before': earlier, 'n_wg': len(objs), 'n_mk': len(mks),
             'names': [getattr(o, 'name', None) for o in structs], 'long_name': long_name, 'value_ge_1e5': big}
    return lit, descr


def run(rep: common.Report, tier: str, seed: int):
    rng = common.rng_for(seed, 'C18', 'main')
    quick = tier == 'quick'
    info = col_info()
    cases, lits = [], []
    hist = {'rows': {}, 'cols': {}}
    for _ in range(80 if quick else 1000):
        lit, descr = run_case(rng, info)
        lits.append(lit)
        cases.append(descr)
        n = descr['n_wg'] + descr['n_mk']
        hist['rows'][n] = hist['rows'].get(n, 0) + 1
        hist['cols'][len(descr['columns'])] = hist['cols'].get(len(descr['columns']), 0) + 1
    fails = common.run_model('C18', 'Harness.C18', 'C18.case', 'C18.failing', lits, shard=20, extra_imports=IMPORTS)
    names = ['columns', 'row-count', 'cells', 'preamble']
    for idx, code in fails:
        which = [names[k] for k in range(4) if code >> k & 1]
        c = cases[idx]
        rep.violation('C18/' + '+'.join(which), 'spreadsheet differs from the table model: ' + '+'.join(which), {'input': c, 'failed': which})
    # the two documented deviations of the table itself (kept by the model because the code does so)
    if any(c['value_ge_1e5'] for c in cases):
        rep.violation('C18/finding/values-at-or-above-1e5-blanked', 'attribute values >= 1e5 collide with the missing-value sentinel and are left blank',
                      {'input': next(c for c in cases if c['value_ge_1e5'])})
    seen, nt = set(), 0
    for c in cases:
        h = common.digest(c)
        if h not in seen:
            seen.add(h)
            nt += (c['n_wg'] + c['n_mk']) >= 2
    rep.coverage.update({
        'evaluations': len(cases), 'distinct_nontrivial': nt,
        'rule': 'case = (device, selected column tags, suppression flag, static-preamble flag); non-trivial: >= 2 rows',
        'samples': cases[:2], 'traces_validated_against_impl': len(cases), 'disagreements_checked': len(fails), 'distribution': hist,
    })


def replay(data):
    return common.replay_by_rerun('C18', data, run)
