"""C11 - reported point matrix = trajectory minus exact consecutive repeats; split_mask = maximal runs."""
from __future__ import annotations

import itertools
import json

import numpy as np

import common
from common import cn, cb, clist, copt

ASSUMPTIONS = [
    'float clause: for non-NaN binary32 a,b the code\'s test (a-b) != 0 agrees with a != b except when both are the '
    'same infinity (inf-inf = NaN); validated by the correspondence on the value alphabet, not proved',
    'NaN cells are given fresh equality codes by the harness (NaN is equal to nothing)',
]

F32 = np.float32
ULP1 = np.nextafter(F32(1), F32(2))
DEN = np.float32(1e-45)
FMAX = np.finfo(np.float32).max
FINITE = [F32(0.0), F32(-0.0), F32(1), F32(-1), ULP1, DEN, -DEN, FMAX, -FMAX, F32(2), F32(0.5), F32(3)]
SMALL = [F32(0.0), F32(1), F32(-1), F32(2)]
NONFIN = [F32(np.inf), F32(-np.inf), F32(np.nan)]


def bits(v) -> int:
    v = np.float32(v)
    if np.isnan(v):
        return 0x7FC00000
    return int(v.view(np.uint32))


class Coder:
    def __init__(self):
        self.nan = 0

    def cell(self, v):
        v = np.float32(v)
        if np.isnan(v):
            self.nan += 1
            return (2 ** 40 + self.nan, bits(v))
        if v == 0:
            return (0, bits(v))
        return (1 + bits(v), bits(v))


def run_impl_dedup(rows, chunks):
    """rows: list of 5-tuples of float32. Returns observables (bit patterns)."""
    from femto.laserpath import LaserPath
    arr = np.array(rows, dtype=np.float32).reshape(-1, 5)
    clean = bool(np.all(np.isfinite(arr)) and np.all(arr[:, 3] > 0)) if len(arr) else True
    if clean:
        # feed through add_path in chunks (the single store point)
        lp = LaserPath()
        start = 0
        for c in chunks:
            part = arr[start:start + c]
            start += c
            if len(part):
                lp.add_path(part[:, 0], part[:, 1], part[:, 2], part[:, 3], part[:, 4])
                if (start + len(rows)) % 2 == 0:
                    # the views are read while the path is still being built (every other chunk boundary)
                    with np.errstate(all='ignore'):
                        _ = (lp.points, lp.x, lp.lastpt, lp.lastz)
    else:
        # add_path refuses non-finite values and non-positive feeds (C10): arbitrary float32 trajectories are recorded directly
        lp = LaserPath(_x=arr[:, 0].copy(), _y=arr[:, 1].copy(), _z=arr[:, 2].copy(), _f=arr[:, 3].copy(), _s=arr[:, 4].copy())
    SENT = 0xFFFFFFFF          # "this view raised / has an impossible shape": a bit pattern no canonicalised input carries

    def view(get):
        try:
            v = get()
        except Exception:
            return [SENT]
        if v is None:
            return [SENT]
        return [bits(t) for t in np.atleast_1d(np.asarray(v)).ravel()]

    def scalar(get):
        try:
            v = get()
        except Exception:
            return SENT
        if v is None:
            return None
        a = np.asarray(v)
        return bits(a.ravel()[0]) if a.size == 1 else SENT

    with np.errstate(all='ignore'):
        try:
            pts = np.asarray(lp.points)
            if pts.ndim == 2:
                o_points = [[bits(v) for v in r] for r in pts.T]
            else:
                o_points = [] if pts.size == 0 else [[SENT] * 5]
        except Exception:
            o_points = [[SENT] * 5]
        ox, oy, oz = view(lambda: lp.x), view(lambda: lp.y), view(lambda: lp.z)
        last = [scalar(lambda: lp.lastx), scalar(lambda: lp.lasty), scalar(lambda: lp.lastz)]
        try:
            px, py, pz = (np.atleast_1d(np.asarray(a)).ravel() for a in lp.path3d)
            o_path = [[bits(a), bits(b), bits(c)] for a, b, c in zip(px, py, pz)] if len(px) == len(py) == len(pz) else [[SENT] * 3]
            # `path` must be the xy part of path3d
            qx, qy = (np.atleast_1d(np.asarray(a)).ravel() for a in lp.path)
            if not ([bits(v) for v in qx] == [r[0] for r in o_path] and [bits(v) for v in qy] == [r[1] for r in o_path]):
                o_path = o_path + [[SENT] * 3]
        except Exception:
            o_path = [[SENT] * 3]
    return dict(points=o_points, x=ox, y=oy, z=oz, last=last, path=o_path)


def lit_dedup(rows, obs) -> str:
    coder = Coder()
    rws = clist(clist('(%s, %s)' % (cn(c), cn(b)) for c, b in (coder.cell(v) for v in r)) for r in rows)

    def cells(l):
        return clist('(0%%N, %s)' % cn(b) for b in l)
    o_points = clist(cells(r) for r in obs['points'])
    last = clist(copt(None if b is None else '(0%%N, %s)' % cn(b)) for b in obs['last'])
    o_path = clist(cells(r) for r in obs['path'])
    return (f'CD {{| d_rows := {rws}; o_points := {o_points}; o_x := {cells(obs["x"])}; o_y := {cells(obs["y"])}; '
            f'o_z := {cells(obs["z"])}; o_last := {last}; o_path := {o_path} |}}')


def run_impl_mask(arr, mask):
    from femto.helpers import split_mask
    try:
        sp = split_mask(np.array(arr, dtype=np.int64), np.array(mask, dtype=bool))
    except IndexError:
        return None
    return [[int(v) for v in piece] for piece in sp]


def lit_mask(arr, mask, out) -> str:
    o = copt(None if out is None else clist(clist(cn(v) for v in p) for p in out))
    return f'CM {{| m_arr := {clist(cn(v) for v in arr)}; m_mask := {clist(cb(b) for b in mask)}; o_split := {o} |}}'


def gen_rows(rng, n, alphabet, p_repeat):
    rows = []
    for i in range(n):
        if rows and rng.random() < p_repeat:
            r = list(rows[-1])
            k = rng.random()
            if k < 0.35:
                pass  # exact repeat
            elif k < 0.6:
                r[rng.randrange(5)] = rng.choice(alphabet)  # single column change
            elif k < 0.8:
                # cancelling change: +d in one column, -d in another
                a, b = rng.sample(range(5), 2)
                r[a] = np.float32(r[a] + np.float32(1))
                r[b] = np.float32(r[b] - np.float32(1))
            else:
                # sign of zero / denormal nudges
                a = rng.randrange(5)
                r[a] = np.float32(-r[a]) if r[a] == 0 else r[a]
            rows.append(tuple(r))
        else:
            rows.append(tuple(rng.choice(alphabet) for _ in range(5)))
    return rows


def nontrivial_rows(rows):
    rep = chg = False
    for a, b in zip(rows, rows[1:]):
        same = all((x == y) for x, y in zip(a, b))
        rep |= same
        chg |= not same
    return rep and chg


def n_runs(mask):
    return sum(1 for i, b in enumerate(mask) if b and (i == 0 or not mask[i - 1]))


def run(rep: common.Report, tier: str, seed: int):
    rng = common.rng_for(seed, 'C11', 'main')
    quick = tier == 'quick'
    cases = []   # (kind, payload, literal)
    hist = {'dedup_len': {}, 'mask_len': {}, 'streams': {}}

    def add_dedup(rows, stream):
        n = len(rows)
        # chunking of add_path calls
        chunks, left = [], n
        while left > 0:
            c = rng.randint(1, max(1, left))
            chunks.append(c)
            left -= c
        obs = run_impl_dedup(rows, chunks)
        cases.append(('dedup', {'rows': [[float(v) for v in r] for r in rows], 'bits': [[bits(v) for v in r] for r in rows],
                                'chunks': chunks, 'stream': stream}, lit_dedup(rows, obs)))
        b = min(n, 64) if n < 64 else 64
        hist['dedup_len'][b] = hist['dedup_len'].get(b, 0) + 1
        hist['streams'][stream] = hist['streams'].get(stream, 0) + 1

    # corpus first
    corpus = common.VERIF / 'corpus' / 'C11'
    if corpus.exists():
        for p in sorted(corpus.glob('*.json')):
            d = json.loads(p.read_text())
            if d.get('kind') == 'dedup':
                add_dedup([tuple(np.array(b, dtype=np.uint32).view(np.float32)) for b in d['bits']], 'corpus')

    # exhaustive tiny: all sequences of length <= 3 over a 2-symbol row alphabet in 2 columns (embedded in 5)
    base_rows = [tuple(F32(v) for v in r) for r in
                 [(0, 0, 0, 1, 0), (1, 0, 0, 1, 0), (0, 1, 0, 1, 0), (0, 0, 0, 1, 1), (-0.0, 0, 0, 1, 0)]]
    for n in range(0, 4 if quick else 5):
        for combo in itertools.product(base_rows, repeat=n):
            add_dedup(list(combo), 'exhaustive-small')
    # random finite
    for _ in range(250 if quick else 3000):
        n = rng.choice([1, 2, 3, 5, 8, 13, 21, 40]) if rng.random() < 0.8 else rng.randint(41, 300 if quick else 2000)
        alpha = SMALL if rng.random() < 0.5 else FINITE
        add_dedup(gen_rows(rng, n, alpha, 0.6), 'random-finite')
    # separate stream with infinities / NaN
    for _ in range(60 if quick else 600):
        n = rng.randint(1, 12)
        add_dedup(gen_rows(rng, n, SMALL + NONFIN, 0.6), 'nonfinite')

    def add_mask(arr, mask, stream):
        out = run_impl_mask(arr, mask)
        cases.append(('mask', {'arr': list(arr), 'mask': [bool(b) for b in mask], 'stream': stream}, lit_mask(arr, mask, out)))
        b = min(len(mask), 64)
        hist['mask_len'][b] = hist['mask_len'].get(b, 0) + 1
        hist['streams'][stream] = hist['streams'].get(stream, 0) + 1

    nmax = 9 if quick else 12
    for n in range(0, nmax + 1):
        for m in itertools.product([False, True], repeat=n):
            add_mask(list(range(100, 100 + n)), list(m), 'exhaustive-masks')
    for _ in range(150 if quick else 2000):
        n = rng.randint(nmax + 1, 80)
        p = rng.random()
        mask = [rng.random() < p for _ in range(n)]
        add_mask([rng.randrange(1000) for _ in range(n)], mask, 'random-masks')
    for _ in range(40 if quick else 300):   # malformed: lengths differ
        n, k = rng.randint(0, 10), rng.randint(1, 10)
        add_mask(list(range(n)), [rng.random() < 0.5 for _ in range(k)], 'length-mismatch')

    fails = common.run_model('C11', 'Harness.C11', 'C11.case', 'C11.failing', [c[2] for c in cases])

    names_d = ['points', 'x', 'y', 'z', 'last', 'path3d']
    for idx, code in fails:
        kind, payload, _ = cases[idx]
        if kind == 'dedup':
            which = [names_d[k] for k in range(6) if code >> k & 1]
            nonfin = any(not np.isfinite(v) for r in payload['rows'] for v in r)
            infeq = nonfin and any(all((x == y) for x, y in zip(a, b)) and any(np.isinf(x) for x in a)
                                   for a, b in zip(payload['rows'], payload['rows'][1:]))
            key = 'C11/dedup/' + ('equal-infinite-rows-kept' if infeq else ('nonfinite' if nonfin else 'finite')) + '/' + '+'.join(which)
            rep.violation(key, f'reported matrix/view differs from trajectory-minus-repeats ({"+".join(which)})',
                          {'kind': 'dedup', 'input': payload})
        else:
            rep.violation('C11/split_mask/' + payload['stream'],
                          'split_mask differs from the maximal runs of selected elements', {'kind': 'mask', 'input': payload})

    dist = set()
    nt = 0
    for kind, payload, _ in cases:
        h = common.digest(payload.get('bits', payload.get('mask')) if kind == 'dedup' else [payload['arr'], payload['mask']])
        if h in dist:
            continue
        dist.add(h)
        if kind == 'dedup' and nontrivial_rows([tuple(np.float32(v) for v in r) for r in payload['rows']]):
            nt += 1
        if kind == 'mask' and n_runs(payload['mask']) >= 2:
            nt += 1
    rep.coverage.update({
        'evaluations': len(cases), 'distinct_nontrivial': nt,
        'rule': 'dedup case: distinct float32 row sequence containing both an exact repeat and a change; '
                'mask case: distinct (array, mask) with >= 2 runs. Streams: exhaustive-small rows, random finite alphabet, '
                'nonfinite alphabet, all masks up to length %d (exhaustive), random masks, length-mismatch' % nmax,
        'samples': [cases[i][1] for i in (0, len(cases) // 3, len(cases) // 2, len(cases) - 1)],
        'traces_validated_against_impl': len(cases),
        'disagreements_checked': len(fails),
        'distribution': hist,
        'exhaustive': False,
    })


def replay(data):
    inp = data['input']
    if data['kind'] == 'dedup':
        rows = [tuple(np.array(b, dtype=np.uint32).view(np.float32)) for b in inp['bits']]
        obs = run_impl_dedup(rows, inp['chunks'])
        lit = lit_dedup(rows, obs)
    else:
        lit = lit_mask(inp['arr'], inp['mask'], run_impl_mask(inp['arr'], inp['mask']))
    fails = common.run_model('C11', 'Harness.C11', 'C11.case', 'C11.failing', [lit], tag='replay')
    print('replay:', 'FAILS' if fails else 'passes', fails)
    return 1 if fails else 0
