"""C06 - trench programs fire only inside trench footprints and cut the full depth."""
from __future__ import annotations

import math
import os
import pathlib
import shutil
from fractions import Fraction

import numpy as np
from shapely import geometry

import common
import layouts
import lexer
import pgm
from common import cq, cz, cn, cb, cnat, clist, frac

IMPORTS = 'From Femto Require Import Base.Num Ctl.Tok Geo.Rigid Pgm.Ops Trench.TreeProg.'
ASSUMPTIONS = [
    'file names (trenchColNNN/trenchNNN_WALL.pgm ...) come from python string formatting and are supplied to the model by the harness; '
    'that they exist is decided by running the tree on the controller (a missing file is an error)',
    '"inside the footprint" is decided by shapely on the untransformed chains (2e-5 mm tolerance); the Coq monitor establishes that '
    'the shutter is open only along those chains and during pure z steps',
    'the lab folder (base_folder) is mapped onto the export directory by the harness',
]


def fname_lit(path: str, it):
    p = pathlib.PurePosixPath(path)
    return '{| f_arg := %s; f_base := %s; f_pgm := %s |}' % (cn(it(str(p))), cn(it(p.name)), cb(p.suffix == '.pgm'))


def pts_lit(xs, ys, flags):
    return clist('(%s, %s, %s)' % (cq(frac(x)), cq(frac(y)), cb(bool(f))) for x, y, f in zip(xs, ys, flags))


def floor_arrays(trench, bed=False):
    """the arrays _export_trench_column hands to export_array2d for the floor / bed file (same calls, same flags)"""
    x_floor, y_floor, f_decel = np.array([]), np.array([]), np.array([])
    for idx, (x_temp, y_temp) in enumerate(trench.toolpath()):
        hatch = (idx == trench.num_insets) if bed else (idx >= trench.num_insets)
        if hatch:
            f_temp = np.ones_like(x_temp, dtype=bool)
        else:
            f_temp = np.empty_like(x_temp, dtype=object)
            f_temp[0], f_temp[-1] = True, True
        x_floor = np.append(x_floor, x_temp)
        y_floor = np.append(y_floor, y_temp)
        f_decel = np.append(f_decel, f_temp)
    return x_floor, y_floor, [bool(v) for v in f_decel]


def build_columns(utrench, specs):
    """specs: list of (calls of the waveguides, column kwargs incl. optional 'reparameterised' values) -> columns"""
    from femto.waveguide import Waveguide
    from femto.trench import TrenchColumn, UTrenchColumn
    cols = []
    for calls_all, kw, wg_param in specs:
        wgs = []
        with pgm.quiet():
            for calls in calls_all:
                wg = Waveguide(**wg_param)
                for c in calls:
                    if c[0] == 'start':
                        wg.start(list(c[1]))
                    elif c[0] == 'linear':
                        wg.linear(list(c[1]), mode=c[2])
                    elif c[0] == 'sin_coupler':
                        wg.sin_coupler(c[1])
                    elif c[0] == 'arc_bend':
                        wg.arc_bend(c[1])
                    elif c[0] == 'sin_bridge':
                        wg.sin_bridge(c[1], dz=c[2])
                    elif c[0] == 'end':
                        wg.end()
                wgs.append(wg)
            base = {k: v for k, v in kw.items() if k not in ('reparameterised', 'built_with', 'never_dug')}
            built = dict(base, **kw.get('built_with', {}))
            col = (UTrenchColumn if utrench else TrenchColumn)(**built)
            if not kw.get('never_dug'):
                col.dig_from_waveguide(wgs)
            if kw.get('reparameterised'):
                _ = (col.n_repeat, col.fabrication_time, col.total_height)
                col.h_box, col.deltaz, col.z_off = kw['h_box'], kw['deltaz'], kw['z_off']
        cols.append(col)
    return cols


def run_case(rng):
    utrench = rng.random() < 0.35
    ncols = rng.choice([1, 1, 2, 3])
    cfgd = pgm.gen_cfg(rng, allow_bad_laser=False)
    cfgd['output_digits'] = rng.choice([6, 6, 5, 9])
    cfgd['export_dir'] = rng.choice(['', 'out'])
    specs = []
    for _ in range(ncols):
        wgs, descr = layouts.gen_layout(rng)
        col, kw = layouts.gen_column(rng, descr, utrench)
        if rng.random() < 0.3:
            # the column's depth parameters are public attributes: read the estimates, then change them before exporting
            kw['built_with'] = {k: kw[k] for k in ('h_box', 'deltaz', 'z_off')}
            kw['h_box'] = rng.choice([0.05, 0.075, 0.1])
            kw['deltaz'] = rng.choice([0.02, 0.01, 0.033])
            kw['z_off'] = rng.choice([-0.02, 0.0])
            kw['reparameterised'] = True
        if ncols > 1 and rng.random() < 0.25:
            kw['never_dug'] = True       # a column without blocks (never dug / nothing found) among the others
        wg_param = dict(speed=20, radius=wgs[0].radius, pitch=descr['pitch'], int_dist=0.007, int_length=0.0, cmd_rate_max=400,
                        samplesize=(8, 3), lsafe=1)
        specs.append((descr['calls'], kw, wg_param))
    if len({k['base_folder'] for _, k, _ in specs}) > 1:
        for _, k, _ in specs:
            k['base_folder'] = specs[0][1]['base_folder']
    writer_set = None
    if rng.random() < 0.3:
        # the writer's refractive indices are public attributes: built for one objective, switched to another before exporting
        writer_set = {rng.choice(['n_environment', 'n_glass']): rng.choice([1.0, 1.33, 1.5, 1.7])}
    return eval_case(cfgd, utrench, specs, writer_set)


def eval_case(cfgd, utrench, specs, writer_set=None):
    from femto.writer import TrenchWriter, UTrenchWriter
    for p in pathlib.Path('.').iterdir():
        shutil.rmtree(p) if p.is_dir() else p.unlink()
    cols = build_columns(utrench, specs)
    descrs = [{'calls': calls, 'column': kw, 'wg_param': wp, 'blocks': len(col._trench_list)} for (calls, kw, wp), col in zip(specs, cols)]
    W = (UTrenchWriter if utrench else TrenchWriter)(list(cols), filename='dev.pgm', **cfgd)
    cfg_built = cfgd
    if writer_set:
        for k, v in writer_set.items():
            setattr(W, k, v)
        cfgd = dict(cfgd, **writer_set)          # the settings in force when the tree is exported
    raised = None
    try:
        with pgm.quiet():
            W.pgm(verbose=False)
    except Exception as e:
        raised = f'{type(e).__name__}: {e}'
    root = pathlib.Path(cfgd['export_dir'] or '.') / ('U-TRENCH' if utrench else 'TRENCH')
    descr = {'cfg': cfgd, 'utrench': utrench, 'columns': descrs, 'raised': raised, 'writer_set': writer_set, 'cfg_built': cfg_built}
    if raised is not None:
        return None, descr
    if not any(c._trench_list for c in cols):
        # no block anywhere: nothing to fabricate (the writer still emits empty call files)
        pass
    it = lexer.Interner()
    tm = pgm.t_matrix_of(cfgd)
    base = cols[0].base_folder

    def lexfile(rel):
        f = root / rel
        return lexer.lex(f.read_text(), it) if f.is_file() else None

    tree = {}          # LOAD path string -> tokens

    def resolve(load_path: str):
        rel = load_path[len(base):].lstrip('/') if base and load_path.startswith(base) else load_path
        return lexfile(rel)
    neff = cfgd['n_glass'] / cfgd['n_environment']
    col_lits = []
    shapely_bad = []
    zlo, zhi, dzmax = None, None, 0.0
    for i, col in enumerate(cols):
        cdir = f'trenchCol{i + 1:03}'
        far = lexfile(f'FARCALL{i + 1:03}.pgm') or []
        arrays, blocks_lit, beds_lit = [], [], []
        for j, tr in enumerate(col):
            wall_rel, floor_rel = f'{cdir}/trench{j + 1:03}_WALL.pgm', f'{cdir}/trench{j + 1:03}_FLOOR.pgm'
            xb, yb = tr.border
            arrays.append((pts_lit(xb, yb, [False] * len(xb)), col.speed_wall, lexfile(wall_rel) or []))
            with pgm.quiet():
                xf, yf, fl = floor_arrays(tr)
            arrays.append((pts_lit(xf, yf, fl), col.speed_floor, lexfile(floor_rel) or []))
            # shapely: every segment of the wall ring and of the floor chain lies in the footprint
            foot = tr.block.buffer(2e-5)
            chain = geometry.LineString(list(zip(xf, yf))) if len(xf) >= 2 else None
            if chain is not None and chain.difference(foot).length > 1e-9:
                shapely_bad.append({'column': i + 1, 'block': j + 1, 'outside_length': chain.difference(foot).length})
            wall_path = str(pathlib.PurePosixPath(base) / wall_rel) if base else wall_rel
            floor_path = str(pathlib.PurePosixPath(base) / floor_rel) if base else floor_rel
            blocks_lit.append('{| b_first := (%s, %s); b_wall_f := %s; b_wall_n := %s; b_floor_f := %s; b_floor_n := %s |}' % (
                cq(frac(xb[0])), cq(frac(yb[0])), fname_lit(wall_path, it), fname_lit(pathlib.PurePosixPath(wall_rel).name, it),
                fname_lit(floor_path, it), fname_lit(pathlib.PurePosixPath(floor_rel).name, it)))
        if utrench:
            for kbed, bed in enumerate(col.trenchbed):
                bed_rel = f'{cdir}/trench_BED_{kbed + 1:03}.pgm'
                with pgm.quiet():
                    xf, yf, fl = floor_arrays(bed, bed=True)
                arrays.append((pts_lit(xf, yf, fl), col.speed_floor, lexfile(bed_rel) or []))
                ext = np.array(bed.block.exterior.coords)
                bed_path = str(pathlib.PurePosixPath(base) / bed_rel) if base else bed_rel
                beds_lit.append('{| d_first := (%s, %s); d_f := %s; d_n := %s |}' % (
                    cq(frac(ext[0][0])), cq(frac(ext[0][1])), fname_lit(bed_path, it), fname_lit(pathlib.PurePosixPath(bed_rel).name, it)))
        dz = col.deltaz / neff
        d_lit = ('{| c_blocks := %s; c_beds := %s; c_nboxz := %s; c_nrepeat := %s; c_hbox := %s; c_zoff := %s; c_dz := %s; c_u := %s; '
                 'c_speed_closed := %s; c_zcurr := %s |}' % (
                     clist(blocks_lit), clist(beds_lit), cnat(col.nboxz), cz(col.n_repeat), cq(frac(col.h_box)), cq(frac(col.z_off)),
                     cq(frac(dz)), clist(cq(frac(u)) for u in (col.u or [])), cq(frac(col.speed_closed)), cn(it.var('ZCURR'))))
        col_lits.append('{| cc_d := %s; cc_farcall := %s; cc_arrays := %s |}' % (
            d_lit, lexer.toks_literal(far), clist('(%s, %s, %s)' % (a, cq(frac(s)), lexer.toks_literal(t)) for a, s, t in arrays)))
        if col._trench_list:
            lo, hi = col.z_off / neff, (col.nboxz * col.h_box) / neff
            zlo = lo if zlo is None else min(zlo, lo)
            zhi = hi if zhi is None else min(zhi, hi)
            dzmax = max(dzmax, dz)
        # sub-programs this column loads
        for t in far:
            if t.kind == 'load' and t.path not in tree:
                tree[t.path] = resolve(t.path)
    main = lexfile('MAIN.pgm') or []
    main_files = []
    for i, col in enumerate(cols):
        fp = str(pathlib.PurePosixPath(col.base_folder) / f'FARCALL{i + 1:03}.pgm')
        main_files.append('(%s, %s)' % (fname_lit(fp, it), fname_lit(pathlib.PurePosixPath(fp).name, it)))
    for t in main:
        if t.kind == 'load' and t.path not in tree:
            tree[t.path] = resolve(t.path)
    main_cfgd = dict(cfgd, aerotech_angle=None, rotation_angle=None)
    tree_lit = clist('(%s, %s)' % (cn(it(p)), lexer.toks_literal(toks)) for p, toks in tree.items() if toks is not None)
    lit = ('{| k_cfg := %s; k_main_cfg := %s; k_cols := %s; k_main_files := %s; k_main := %s; k_tree := %s; k_dz := %s; k_zlo := %s; k_zhi := %s; k_slack := %s |}' % (
        pgm.cfg_literal(cfgd, tm), pgm.cfg_literal(main_cfgd, pgm.t_matrix_of(main_cfgd)), clist(col_lits), clist(main_files),
        lexer.toks_literal(main), tree_lit, cq(frac(dzmax)), cq(frac(zlo or 0.0)), cq(frac(zhi or 0.0)),
        cq(Fraction(max(c.n_repeat for c in cols) + 2, 10 ** 6))))
    descr['shapely_outside'] = shapely_bad
    descr['missing_files'] = sorted(p for p, t in tree.items() if t is None)
    return lit, descr


def run(rep: common.Report, tier: str, seed: int):
    rng = common.rng_for(seed, 'C06', 'main')
    quick = tier == 'quick'
    cases, lits = [], []
    hist = {'columns': {}, 'blocks': {}, 'utrench': 0, 'raised': {}}
    for _ in range(24 if quick else 400):
        lit, d = run_case(rng)
        if lit is None:
            key = d['raised'].split(':')[0]
            hist['raised'][key] = hist['raised'].get(key, 0) + 1
            rep.violation(f'C06/export-raises/{key}', f'exporting the trench tree raised {d["raised"][:200]}', {'input': d})
            continue
        cases.append(d)
        lits.append(lit)
        hist['columns'][len(d['columns'])] = hist['columns'].get(len(d['columns']), 0) + 1
        nb = sum(c['blocks'] for c in d['columns'])
        hist['blocks'][nb] = hist['blocks'].get(nb, 0) + 1
        hist['utrench'] += d['utrench']
        if d['shapely_outside']:
            rep.violation('C06/open-move-outside-footprint/floor-chain-join',
                          'a segment of a floor / bed chain (travelled with the shutter open) leaves the block footprint',
                          {'input': d, 'segments': d['shapely_outside'][:5]})
    fails = common.run_model('C06', 'Harness.C06', 'C06.case', 'C06.failing', lits, shard=2, extra_imports=IMPORTS, timeout=1500)
    names = ['farcall-file-tokens', 'wall-floor-bed-tokens', 'main-tokens', 'parse', 'call-of-missing-or-unloaded-program',
             'program-left-loaded', 'shutter-left-open', 'shutter-open-outside-sub-program-chains', 'chain-entered-away-from-its-first-point',
             'chain-holds-non-move-instructions', 'depth-not-covered', 'n_repeat-not-from-current-parameters',
             'calling-file-rejected-by-the-verified-static-checker']
    for idx, code in fails:
        which = [names[k] for k in range(len(names)) if code >> k & 1]
        c = cases[idx]
        mon = [w for w in which if names.index(w) >= 3]
        if mon:
            key = 'C06/' + '+'.join(mon)
            if c['missing_files'] and 'call-of-missing-or-unloaded-program' in mon:
                key += '/file-name-case' if any(m.lower().endswith(('_wall.pgm', '_floor.pgm')) and m != m.upper() for m in c['missing_files']) else '/missing-file'
            rep.violation(key, 'trench program tree on the reference controller: ' + '+'.join(mon), {'input': c, 'failed': which})
        else:
            rep.violation('C06/correspondence/' + '+'.join(which), 'model and femto disagree on ' + '+'.join(which),
                          {'input': c, 'failed': which, 'correspondence': 'Harness.C06.check'}, no_input=True)
    nt = sum(1 for c in cases if any(col['blocks'] >= 1 and col['column']['nboxz'] * 2 >= 2 for col in c['columns']))
    rep.coverage.update({
        'evaluations': len(cases) + sum(hist['raised'].values()), 'distinct_nontrivial': min(nt, len({common.digest(c) for c in cases})),
        'rule': 'case = (waveguide layouts, 1-2 (U-)trench columns, compiler configuration) exported as a program tree; non-trivial: >= 1 block',
        'samples': cases[:1], 'traces_validated_against_impl': len(cases), 'disagreements_checked': len(fails), 'distribution': hist,
    })


def replay(data):
    c = data['input']
    if not all('calls' in col for col in c['columns']):
        print('replay: this file predates stored layouts; rerun bin/check C06 %s with VERIF_SEED=%s' % (data.get('tier'), data.get('seed')))
        return 1
    common.fresh_cwd('C06')
    specs = [(col['calls'], col['column'], col['wg_param']) for col in c['columns']]
    lit, d = eval_case(c.get('cfg_built') or c['cfg'], c['utrench'], specs, c.get('writer_set'))
    if lit is None:
        print('replay: export raised', d['raised'])
        return 1
    fails = common.run_model('C06', 'Harness.C06', 'C06.case', 'C06.failing', [lit], tag='replay', extra_imports=IMPORTS, timeout=1500)
    print('replay:', 'FAILS' if fails or d['shapely_outside'] else 'passes', fails, d['shapely_outside'][:2])
    return 1 if fails or d['shapely_outside'] else 0
