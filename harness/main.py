"""Entry point:  bin/check <Cxx> quick|thorough   |   bin/check <Cxx> --replay <file>"""
from __future__ import annotations

import importlib
import json
import os
import sys
import traceback

sys.path.insert(0, os.path.dirname(os.path.abspath(__file__)))
import common  # noqa: E402


def main(argv):
    if len(argv) < 2:
        print('usage: check <property> quick|thorough | --replay <file>')
        return 2
    prop = argv[0].upper()
    mod = importlib.import_module(prop.lower())
    seed = int(os.environ.get('VERIF_SEED', '0') or 0)
    if argv[1] == '--replay':
        data = json.loads(open(argv[2]).read())
        return mod.replay(data)
    tier = argv[1]
    if tier not in ('quick', 'thorough'):
        tier = os.environ.get('VERIF_TIER', 'quick')
    rep = common.Report(prop, tier, seed)
    common.WORK.mkdir(parents=True, exist_ok=True)
    try:
        proof = common.static_obligations(rep, prop, tier)
        common.fresh_cwd(prop)
        mod.run(rep, tier, seed)
    except common.Broken as e:
        rep.violation('machinery/broken', f'correspondence machinery failed: {str(e)[:300]}',
                      {'correspondence': prop, 'error': str(e)}, no_input=True)
        proof = locals().get('proof')
    except Exception:
        tb = traceback.format_exc()
        rep.violation('machinery/exception', 'harness raised: ' + tb.strip().splitlines()[-1][:300],
                      {'correspondence': prop, 'traceback': tb}, no_input=True)
        proof = locals().get('proof')
    rc = rep.finish(proof, getattr(mod, 'ASSUMPTIONS', ()))
    os.chdir(str(common.VERIF))
    import shutil
    shutil.rmtree(common.WORK / prop, ignore_errors=True)
    print(f'{prop} {tier}: evaluations={rep.coverage.get("evaluations")} violations={rep.violations} '
          f'known={sum(rep.known_hits.values())} wall={rep.coverage.get("wall", "")}', flush=True)
    return rc


if __name__ == '__main__':
    sys.exit(main(sys.argv[1:]))
