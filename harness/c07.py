"""C07 - trench floor tool-paths terminate, stay inside the block and cover it."""
from __future__ import annotations

import math

import numpy as np
from shapely import geometry
from shapely.ops import unary_union

import common
import pgm
from common import cb, cnat, clist

IMPORTS = ''
ASSUMPTIONS = [
    'GEOS (buffer, simplify, intersection) is an oracle: its answers are recorded and replayed into the model; that its '
    'inset lies inside the polygon is a named law (C07_erosion_inside / C07_hatching_inside are about the mathematical operations)',
    'containment and coverage are decided by shapely on the generated instances: polylines within block.buffer(1e-5), '
    'block minus path.buffer(1.06*delta + 2e-5) of negligible area',
]


def polygons(rng):
    """(name, polygon): convex, concave, biconcave, slivers, blocks that split when inset, real trench blocks"""
    k = rng.random()
    d = rng.choice([0.0005, 0.001, 0.002, 0.004, 0.01])
    if k < 0.08:
        # two very unequal squares joined by a neck narrower than two spacings: the block splits at the first inset and the
        # small part is used up while the large one still has a wide interior (many turns: see run)
        big, small = rng.uniform(40, 60) * d, rng.uniform(5, 9) * d
        nw, nlen = rng.uniform(1.0, 1.6) * d, rng.uniform(2, 4) * d
        p = unary_union([geometry.box(0, 0, big, big), geometry.box(big - d, (big - nw) / 2, big + nlen + d, (big + nw) / 2),
                         geometry.box(big + nlen, (big - small) / 2, big + nlen + small, (big + small) / 2)])
        return 'dumbbell', p, d
    if k < 0.2:
        w, h = rng.uniform(0.02, 0.5), rng.uniform(0.02, 0.3)
        return 'box', geometry.box(0, 0, w, h), d
    if k < 0.4:
        kk = rng.choice([0.5, 1, 2, 3, 5, 9, 11, 0.2])
        long = rng.uniform(0.05, 1.0)
        p = geometry.box(0, 0, long, kk * d) if rng.random() < 0.5 else geometry.box(0, 0, kk * d, long)
        return f'sliver{kk}', p, d
    if k < 0.5:
        a, b = rng.uniform(0.05, 0.3), rng.uniform(0.05, 0.3)
        t = rng.uniform(2, 30) * d
        return 'L', geometry.Polygon([(0, 0), (a, 0), (a, t), (t, t), (t, b), (0, b)]), d
    if k < 0.6:
        a, b = rng.uniform(0.1, 0.4), rng.uniform(0.05, 0.2)
        neck = rng.uniform(1, 12) * d
        return 'bowtie', geometry.Polygon([(0, 0), (a / 2, b / 2 - neck / 2), (a, 0), (a, b), (a / 2, b / 2 + neck / 2), (0, b)]), d
    if k < 0.7:
        a, b = rng.uniform(0.1, 0.4), rng.uniform(0.08, 0.2)
        t = rng.uniform(3, 20) * d
        return 'U', geometry.Polygon([(0, 0), (a, 0), (a, b), (a - t, b), (a - t, t), (t, t), (t, b), (0, b)]), d
    if k < 0.8:
        n = rng.randint(3, 9)
        r = rng.uniform(0.02, 0.2)
        ang = sorted(rng.uniform(0, 2 * math.pi) for _ in range(n))
        pts = [(r * math.cos(t), r * math.sin(t)) for t in ang]
        p = geometry.Polygon(pts)
        if not p.is_valid or p.area < 1e-8:
            p = geometry.box(0, 0, r, r)
        return 'convex', p, d
    # real blocks: rectangle minus buffered sinusoidal waveguides (concave / biconcave), rounded corners
    L, H = rng.uniform(0.3, 1.5), rng.uniform(0.05, 0.2)
    rect = geometry.box(0, 0, L, H)
    amp = rng.uniform(0.0, 0.04)
    xs = np.linspace(-0.2, L + 0.2, 80)
    lo = geometry.LineString(list(zip(xs, -0.01 + amp * (1 - np.cos(2 * np.pi * xs / L)) / 2))).buffer(0.027)
    hi = geometry.LineString(list(zip(xs, H + 0.01 - amp * (1 - np.cos(2 * np.pi * xs / L)) / 2))).buffer(0.027)
    p = rect.difference(lo).difference(hi)
    if p.geom_type != 'Polygon' or p.is_empty:
        p = rect
    p = p.buffer(0.01, resolution=64).simplify(5e-7)
    return 'trench-like', p, d


def run_one(poly, d, turns, abandoned=0):
    from femto.trench import Trench
    from femto.helpers import normalize_polygon
    t = Trench(normalize_polygon(poly), delta_floor=d, safe_inner_turns=turns)
    if abandoned:
        # an earlier walk over the tool-path that was given up after `abandoned` polylines (a peek, a consumer that failed)
        try:
            with pgm.quiet():
                g0 = t.toolpath()
                for _ in range(abandoned):
                    next(g0)
            del g0
        except Exception:
            pass
    ids = {}
    polys = []

    def pid(g):
        k = g.wkb
        if k not in ids:
            ids[k] = len(polys)
            polys.append(g)
        return ids[k]
    pid(t.block)
    inset_rec, hatch_rec, yields, hatch_lines = [], [], [], []
    orig_bp = Trench.buffer_polygon
    orig_bp_attr = Trench.__dict__['buffer_polygon']      # the staticmethod object itself, for an exact restore
    orig_zz = Trench.zigzag
    buffered = {}

    def bp(shape, offset):
        out = orig_bp(shape, offset)
        inset_rec.append((pid(shape), [pid(c) for c in out]))
        for c in out:
            buffered[c.buffer(1.05 * d).wkb] = pid(c)
        return out

    def zz(self, p):
        mask = self.zigzag_mask()
        res = p.intersection(mask)
        lines_ = [ln for ln in getattr(res, 'geoms', [res]) if ln.geom_type == 'LineString' and not ln.is_empty]
        pieces = len(lines_)
        hatch_rec.append((buffered.get(p.wkb, 10 ** 6), pieces))
        hatch_lines.append(lines_)
        return orig_zz(self, p)
    Trench.buffer_polygon = staticmethod(bp)
    Trench.zigzag = zz
    raised = None
    lines = []
    try:
        with pgm.quiet():
            n = int(t.num_insets)
            buffered[t.block.buffer(1.05 * d).wkb] = 0
            gen = t.toolpath()
            nb, nh = 0, 0
            for y in gen:
                y = np.asarray(y)
                # a contour yield follows a buffer_polygon call, a hatch yield follows a zigzag call
                if len(inset_rec) > nb:
                    yields.append((True, inset_rec[-1][0]))
                    nb = len(inset_rec)
                elif len(hatch_rec) > nh:
                    yields.append((False, hatch_rec[-1][0]))
                    nh = len(hatch_rec)
                else:
                    yields.append((False, 10 ** 6))      # a polyline that came from neither an inset nor a hatching call
                if y.ndim == 2 and y.shape[1] >= 2:
                    lines.append(geometry.LineString(y.T))
    except Exception as e:
        raised = type(e).__name__
        n = -1
    finally:
        Trench.buffer_polygon = orig_bp_attr
        Trench.zigzag = orig_zz
    empties = [i for i, g in enumerate(polys) if g.is_empty]
    xb, yb = t.border
    ext = np.array(t.block.exterior.coords)
    wall_ok = bool(np.allclose(xb, ext[:, 0].astype(np.float32)) and np.allclose(yb, ext[:, 1].astype(np.float32)))
    inside_ok = cover_ok = True
    margin_in = margin_cov = 0.0
    monitor = 'ok'
    where = []
    if raised is None and lines:
        try:
            grown = t.block.buffer(1e-5)
            outs = [float(ln.difference(grown).length) for ln in lines]
            margin_in = float(sum(outs))
            inside_ok = margin_in <= 1e-9
            # a hatching polyline is the clipped hatch lines plus the joins between them: the lines themselves must be
            # inside the block; a polyline that is outside although all its lines are inside is outside in a join
            lines_out = sum(float(ln.difference(grown).length) for ls in hatch_lines for ln in ls)
            # a hatching that is not the hatching of one remaining polygon of the work list (its joins run between separate
            # parts of the floor) is not the recorded finding 'hatching-joins' (joins across a concavity of one polygon)
            across = any(pid >= 10 ** 6 for pid, _ in hatch_rec)
            where = sorted({'contour' if yields[i][0] else ('hatching-lines' if lines_out > 1e-9 else
                                                            ('hatching-across-parts' if across else 'hatching-joins'))
                            for i, o in enumerate(outs) if o > 1e-9})
            cover = unary_union([ln.buffer(1.06 * d + 2e-5) for ln in lines])
            rest = t.block.difference(cover)
            margin_cov = float(rest.area / max(t.block.area, 1e-12))
            cover_ok = rest.area <= 1e-4 * t.block.area + 1e-12
        except Exception as e:          # GEOS robustness failure inside the monitor itself: counted, not a verdict
            monitor = 'unavailable: ' + type(e).__name__
    return dict(n=n, empties=empties, inset=inset_rec, hatch=hatch_rec, yields=yields, raised=raised, wall_ok=wall_ok,
                inside_ok=inside_ok, cover_ok=cover_ok, margin_in=margin_in, margin_cov=margin_cov, npolys=len(polys), monitor=monitor, where=where)


def lit(r):
    return ('{| k_n := %s; k_empty := %s; k_inset := %s; k_hatch := %s; k_yields := %s; k_raised := %s; k_wall_ok := %s; '
            'k_inside_ok := %s; k_cover_ok := %s |}' % (
                cnat(max(r['n'], 0)), clist(cnat(i) for i in r['empties']),
                clist('(%s, %s)' % (cnat(p), clist(cnat(c) for c in cs)) for p, cs in r['inset']),
                clist('(%s, %s)' % (cnat(min(p, 4000)), cnat(min(k, 4000))) for p, k in r['hatch']),
                clist('(%s, %s)' % (cb(a), cnat(min(b, 4000))) for a, b in r['yields']),
                cb(r['raised'] is not None), cb(r['wall_ok']), cb(r['inside_ok']), cb(r['cover_ok'])))


def run(rep: common.Report, tier: str, seed: int):
    rng = common.rng_for(seed, 'C07', 'main')
    quick = tier == 'quick'
    cases, lits = [], []
    hist = {'shapes': {}, 'split': 0, 'used_up_early': 0, 'max_outside_length': 0.0, 'max_uncovered_fraction': 0.0}
    from shapely import wkt as _wkt
    directed = [('U-directed', _wkt.loads('POLYGON ((0 0, 0.1923858620012386 0, 0.1923858620012386 0.1904417883337189, 0.1825672496400901 0.1904417883337189, 0.1825672496400901 0.0098186123611485, 0.0098186123611485 0.0098186123611485, 0.0098186123611485 0.1904417883337189, 0 0.1904417883337189, 0 0))'), 0.0005)]
    for it in range(140 if quick else 2000):
        name, poly, d = directed[it] if it < len(directed) else polygons(rng)
        if not poly.is_valid or poly.is_empty or poly.geom_type != 'Polygon':
            continue
        turns = 3 if name == 'U-directed' else (rng.randint(6, 10) if name == 'dumbbell' else rng.randint(2, 8))
        if poly.area / (d * d) > 4e5:      # keep the number of hatch lines / insets manageable
            d = math.sqrt(poly.area / 4e5)
        abandoned = rng.choice([0, 0, 0, 1, 3])
        r = run_one(poly, d, turns, abandoned)
        r_descr = {'shape': name, 'delta': d, 'turns': turns, 'earlier_walk_abandoned_after': abandoned, 'wkt': poly.wkt if len(poly.wkt) < 1500 else poly.wkt[:1500] + '...',
                   'num_insets': r['n'], 'raised': r['raised'], 'yields': len(r['yields']), 'outside_length': r['margin_in'], 'outside_in': r['where'],
                   'uncovered_fraction': r['margin_cov']}
        cases.append(r_descr)
        lits.append(lit(r))
        hist['shapes'][name] = hist['shapes'].get(name, 0) + 1
        if r['monitor'] != 'ok':
            hist['monitor_unavailable'] = hist.get('monitor_unavailable', 0) + 1
        hist['split'] += any(len(cs) > 1 for _, cs in r['inset'])
        hist['used_up_early'] += sum(1 for a, _ in r['yields'] if a) < r['n']
        hist['max_outside_length'] = max(hist['max_outside_length'], r['margin_in'])
        hist['max_uncovered_fraction'] = max(hist['max_uncovered_fraction'], r['margin_cov'])
    fails = common.run_model('C07', 'Harness.C07', 'C07.case', 'C07.failing', lits, shard=30)
    names = ['raised', 'yield-sequence', 'wall-not-outline', 'polyline-outside-block', 'block-not-covered']
    for idx, code in fails:
        which = [names[k] for k in range(5) if code >> k & 1]
        c = cases[idx]
        if which == ['yield-sequence']:
            rep.violation('C07/correspondence/yield-sequence', 'model and femto disagree on the sequence of contours / hatchings',
                          {'input': c, 'failed': which, 'correspondence': 'Harness.C07.check'}, no_input=True)
        else:
            key = 'C07/' + '+'.join(w for w in which if w != 'yield-sequence') + (f'/{c["raised"]}' if c['raised'] else '')
            if 'polyline-outside-block' in which:
                key += '/' + '+'.join(c['outside_in'])
            rep.violation(key, 'tool-path generation: ' + '+'.join(which) + (f' ({c["raised"]})' if c['raised'] else ''), {'input': c, 'failed': which})
    seen = set()
    nt = 0
    for c in cases:
        h = common.digest(c)
        if h not in seen:
            seen.add(h)
            nt += c['yields'] >= 2 or c['shape'].startswith('sliver')
    rep.coverage.update({
        'evaluations': len(cases), 'distinct_nontrivial': nt,
        'rule': 'case = (polygon, floor spacing, inner turns); non-trivial: >= 2 yields, or a sliver a few spacings wide',
        'samples': [{k: v for k, v in c.items() if k != 'wkt'} for c in cases[:3]], 'traces_validated_against_impl': len(cases),
        'disagreements_checked': len(fails), 'distribution': hist,
    })


def replay(data):
    return common.replay_by_rerun('C07', data, run)
