"""C09 - exporting is pure and repeatable: histories of write / transform / plot / pgm / xlsx / toolpath calls."""
from __future__ import annotations

import hashlib
import os
import pathlib
import shutil

import numpy as np

import builders
import common
import pgm
from common import cn, clist

IMPORTS = ''
ASSUMPTIONS = [
    'results, files and arguments are compared through SHA-1 digests (60 bits kept) computed by the harness',
    'plot results are digested through the numeric data of the plotly traces',
    'the xlsx file embeds a creation time stamp; spreadsheet exports are digested through their cell values',
]


def h60(*parts) -> int:
    m = hashlib.sha1()
    for p in parts:
        if isinstance(p, np.ndarray):
            m.update(str(p.dtype).encode() + str(p.shape).encode() + np.ascontiguousarray(p).tobytes())
        elif isinstance(p, bytes):
            m.update(p)
        else:
            m.update(repr(p).encode())
    return int.from_bytes(m.digest()[:8], 'big') >> 4


def path_state(lp):
    return h60(lp._x, lp._y, lp._z, lp._f, lp._s, lp.scan, lp.speed)


def structure(x):
    if isinstance(x, list):
        return ('L', tuple(structure(v) for v in x))
    return ('O', id(x))


def fig_digest(fig):
    parts = []
    for tr in fig.data:
        for attr in ('x', 'y', 'z'):
            v = getattr(tr, attr, None)
            if v is not None:
                parts.append(np.asarray(v, dtype=np.float64))
    return h60(*parts)


def tree_digest(root):
    parts = []
    for p in sorted(pathlib.Path(root).rglob('*')):
        if p.is_file() and p.suffix == '.pgm':
            parts.append(str(p.relative_to(root)))
            parts.append(p.read_bytes())
    return h60(*parts)


class Scenario:
    def __init__(self, rng):
        from femto.device import Device
        from femto.trench import TrenchColumn, UTrenchColumn
        self.rng = rng
        self.cfg = pgm.gen_cfg(rng, allow_bad_laser=False)
        self.cfg['shift_origin'] = rng.choice([(0.5, -0.25), (1.1, 2.3), (0.0, 0.7), (-3.0, 0.5)])
        self.cfg['output_digits'] = rng.choice([6, 4, 9])
        for fn in ('POS.txt', 'fwarp.pkl'):
            pathlib.Path(fn).unlink(missing_ok=True)
        if rng.random() < 0.3:
            # warp compensation on: a measured surface in the working directory (the compensation must not write into the
            # caller's arrays either)
            with open('POS.txt', 'w') as fh:
                for gx in np.linspace(-1.0, 6.0, 6):
                    for gy in np.linspace(-1.0, 3.0, 5):
                        fh.write('%.6f %.6f %.6f\n' % (gx, gy, 0.01 * np.sin(gx) + 0.004 * gy * gy))
            self.cfg['warp_flag'] = True
        self.wgs = []
        for i in range(rng.randint(2, 4)):
            param, calls = builders.gen_wg_calls(rng, max_ops=2)
            param['cmd_rate_max'] = 25
            param['samplesize'] = (4, 2)
            calls = [('start', [-0.5, 0.2 + 0.3 * i, 0.035]), ('linear', [1.0, 0.0, 0.0], 'INC', 1, None),
                     ('sin_bend', rng.choice([0.03, -0.03]), None, None), ('linear', [4.5, None, None], 'ABS', 1, None), ('end',)]
            self.wgs.append(builders.build_wg(param, calls))
        self.mks = []
        for _ in range(rng.randint(0, 2)):
            param, call = builders.gen_marker_call(rng)
            mk = builders.build_marker(param, call)
            if mk.points.ndim == 2:
                self.mks.append(mk)
        with pgm.quiet():
            utc = rng.random() < 0.4
            cls = UTrenchColumn if utc else TrenchColumn
            kw = dict(n_pillars=rng.choice([0, 1])) if utc else {}
            self.col = cls(x_center=2.0, y_min=0.05, y_max=0.2 + 0.3 * len(self.wgs), length=rng.choice([0.3, 0.6]),
                           nboxz=rng.choice([1, 2]), h_box=0.05, deltaz=0.01, delta_floor=0.004, safe_inner_turns=rng.choice([2, 0, 3]),
                           base_folder='', **kw)
            self.col.dig_from_waveguide(self.wgs)
            self.dev = Device(filename='dev.pgm', export_dir='', **self.cfg)
            grouped = rng.random() < 0.5
            given = list(self.wgs)
            if rng.random() < 0.6:
                rng.shuffle(given)          # handed over in an order that is not the order of their input y
            self.dev.extend([given] if grouped else given)
            self.dev.extend(list(self.mks))
            self.dev.append(self.col)
            self.G = pgm.make_compiler(self.cfg, 'w.pgm')
        self.M = np.array(self.wgs[0].points, copy=True)            # caller's point matrix (float32)
        x0, y0 = rng.choice([0.0, 1.5, -0.75]), rng.choice([0.0, 0.25])
        self.S = np.array([[x0, x0 + 1, x0 + 1, x0, x0, x0], [y0, y0, y0 + 0.5, y0 + 0.5, y0, y0], [0.02] * 6, [5.0] * 6,
                           [1, 1, 1, 1, 1, 0]], dtype=np.float32)
        self.xyz = [np.array(a, dtype=np.float32) for a in (self.wgs[-1]._x, self.wgs[-1]._y, self.wgs[-1]._z)]

    def objects_state(self):
        parts = [path_state(w) for w in self.wgs + self.mks]
        parts.append(self.M)
        parts.append(self.S)
        parts.extend(self.xyz)
        for wr in self.dev.writers.values():
            parts.append(structure(wr.obj_list))
        for t in self.col:
            parts.append(t.block.wkb)
        return h60(*parts)

    def do(self, op):
        """perform op, return (key, digest of its result)"""
        G, dev = self.G, self.dev
        with pgm.quiet():
            if op == 'write':
                G._instructions.clear()
                G._shutter_on = False
                G.write(self.M)
                return 1, h60(''.join(G._instructions))
            if op == 'write_stroke':
                # a hand-built matrix: a closed contour that starts with the shutter open and returns to its first point
                G._instructions.clear()
                G._shutter_on = False
                G.write(self.S)
                return 11, h60(''.join(G._instructions))
            if op == 'write_points':
                G._instructions.clear()
                G._shutter_on = False
                G.write(self.wgs[1].points)
                return 2, h60(''.join(G._instructions))
            if op == 'transform':
                r = G.transform_points(*self.xyz)
                return 3, h60(np.asarray(r))
            if op == 'plot2d':
                dev.plot2d(show=False)
                return 4, fig_digest(dev.fig)
            if op == 'plot3d':
                dev.plot3d(show=False)
                return 5, fig_digest(dev.fig)
            if op in ('pgm', 'pgm_quiet'):
                for p in pathlib.Path('.').iterdir():
                    if p.is_dir():
                        shutil.rmtree(p)
                    elif p.suffix in ('.pgm',):
                        p.unlink()
                # a quiet export is its own operation (key 12): what it writes and the estimate it leaves must not depend on
                # whether a verbose export came before (the writers once stored their estimate only when printing it)
                dev.pgm(verbose=(op == 'pgm'))
                self.exported = True
                return (6 if op == 'pgm' else 12), h60(tree_digest('.'), round(float(dev.fabrication_time), 9))
            if op == 'toolpath':
                out = []
                for t in self.col:
                    ys = [np.asarray(a, dtype=np.float64) for a in t.toolpath()]
                    out.append(h60(*ys, round(t.floor_length, 12), round(t.wall_length, 12)))
                # a floor length is by design 0 until its tool-path has been generated once (tests/trench_test.py asserts
                # that), so the column estimate is read only after every part it sums, the beds included, was generated
                for b in getattr(self.col, 'trenchbed', []):
                    ys = [np.asarray(a, dtype=np.float64) for a in b.toolpath()]
                    out.append(h60(*ys, round(b.floor_length, 12)))
                return 7, h60(out, round(float(self.col.fabrication_time), 9))
            if op == 'fab_time':
                return 8, h60([round(float(w.fabrication_time), 12) for w in self.wgs + self.mks])
            if op == 'xlsx':
                import openpyxl
                dev.xlsx(verbose=False, book_name='book.xlsx')
                wb = openpyxl.load_workbook('book.xlsx')
                cells = [[c.value for c in row] for row in wb.active.iter_rows()]
                # drop the time-stamped preamble cells (date of today is constant within a run; keep everything)
                # the sheet quotes device.fabrication_time, which pgm() computes: before / after the first export
                # are two different (legitimate) observations
                return (10 if getattr(self, 'exported', False) else 9), h60(cells)
        raise AssertionError(op)


OPS = ['write', 'write_points', 'transform', 'plot2d', 'plot3d', 'pgm', 'pgm_quiet', 'toolpath', 'fab_time', 'xlsx', 'write_stroke']


def run(rep: common.Report, tier: str, seed: int):
    rng = common.rng_for(seed, 'C09', 'main')
    quick = tier == 'quick'
    cases, lits = [], []
    hist = {'ops': {}, 'lengths': {}}
    # directed histories that run first (kept from failures found earlier): a quiet export before and after a verbose one (fix 56db44c),
    # estimates read between two generations of the tool-path
    directed = [['pgm_quiet', 'xlsx', 'pgm', 'pgm_quiet', 'xlsx'], ['toolpath', 'pgm_quiet', 'toolpath', 'pgm', 'xlsx', 'pgm_quiet']]
    for i_case in range(30 if quick else 300):
        sc = Scenario(rng)
        n = rng.randint(4, 9)
        ops = [rng.choice(OPS) for _ in range(n)]
        if i_case < len(directed):
            ops = directed[i_case] + ops[:3]
        # make sure some operation is repeated
        ops.append(rng.choice(ops))
        ops.append(rng.choice(['pgm', 'pgm_quiet', 'toolpath', 'write', 'transform', 'write_stroke']))
        ops.append(ops[-1])
        obs, args = [], []
        for op in ops:
            before = sc.objects_state()
            try:
                k, dg = sc.do(op)
            except Exception as e:     # an operation that raises is reported as its own observation
                k, dg = (11 if op == 'write_stroke' else OPS.index(op) + 1), h60('raised', type(e).__name__)
            after = sc.objects_state()
            obs.append((k, dg))
            args.append((before, after))
            hist['ops'][op] = hist['ops'].get(op, 0) + 1
        hist['lengths'][len(ops)] = hist['lengths'].get(len(ops), 0) + 1
        bad_ops = sorted({op for (op, (k, v)) in zip(ops, obs) if any(k2 == k and v2 != v for (k2, v2) in obs)})
        mod_ops = sorted({op for (op, (a, b)) in zip(ops, args) if a != b})
        cases.append({'cfg': sc.cfg, 'ops': ops, 'history_dependent': bad_ops, 'modifying': mod_ops, 'n_wg': len(sc.wgs), 'n_mk': len(sc.mks), 'column': type(sc.col).__name__,
                      'blocks': len(sc.col._trench_list)})
        lits.append('{| k_obs := %s; k_args := %s |}' % (clist('(%s, %s)' % (cn(k), cn(v)) for k, v in obs),
                                                         clist('(%s, %s)' % (cn(a), cn(b)) for a, b in args)))
    fails = common.run_model('C09', 'Harness.C09', 'C09.case', 'C09.failing', lits, shard=50)
    for idx, code in fails:
        which = [n for k, n in enumerate(['result-depends-on-history', 'arguments-or-objects-modified']) if code >> k & 1]
        c = cases[idx]
        for op in c['history_dependent']:
            rep.violation('C09/result-depends-on-history/' + op, f'repeating {op} changes its result', {'input': c, 'failed': which})
        for op in c['modifying']:
            rep.violation('C09/arguments-or-objects-modified/' + op, f'{op} modifies the arrays / objects it is given', {'input': c, 'failed': which})
        if not c['history_dependent'] and not c['modifying']:
            rep.violation('C09/' + '+'.join(which), 'repeated operations: ' + '+'.join(which), {'input': c, 'failed': which})
    rep.coverage.update({
        'evaluations': len(cases), 'distinct_nontrivial': len({common.digest(c) for c in cases}),
        'rule': 'case = (device with waveguides, markers and a trench column, non-zero origin shift, history of 7-12 operations '
                'with repeats); every case repeats at least two operations, so every case is non-trivial',
        'samples': cases[:2], 'traces_validated_against_impl': len(cases), 'disagreements_checked': len(fails), 'distribution': hist,
    })


def replay(data):
    return common.replay_by_rerun('C09', data, run)
