"""C16 - devices and writers keep exactly what they were given, routed by type."""
from __future__ import annotations

import copy

import common
import pgm
from common import cn, cb, clist

IMPORTS = 'From Femto Require Import Writers.Device.'
ASSUMPTIONS = [
    'objects are identified by python identity; the model works on (exact type, id) pairs and nested lists',
    'CPython aliasing is not modelled: that arguments are left untouched is observed by comparing each argument with a '
    'structural snapshot taken before the call',
]

KINDS = ['KWg', 'KNwg', 'KTc', 'KUtc', 'KMk']


class Pool:
    def __init__(self):
        from femto.marker import Marker
        from femto.trench import TrenchColumn, UTrenchColumn
        from femto.waveguide import NasuWaveguide, Waveguide

        class MyWaveguide(Waveguide):
            pass

        class MyColumn(TrenchColumn):
            pass
        self.types = {Waveguide: 'KWg', NasuWaveguide: 'KNwg', TrenchColumn: 'KTc', UTrenchColumn: 'KUtc', Marker: 'KMk'}
        self.cls = {'KWg': Waveguide, 'KNwg': NasuWaveguide, 'KTc': TrenchColumn, 'KUtc': UTrenchColumn, 'KMk': Marker}
        self.other = {type(None): 1, int: 2, str: 3, MyWaveguide: 4, MyColumn: 5, float: 6, dict: 7}
        self.MyWaveguide, self.MyColumn = MyWaveguide, MyColumn
        self.ids = {}
        self.keep = []

    def make(self, kind):
        with pgm.quiet():
            if kind in ('KWg', 'KNwg', 'KMk'):
                o = self.cls[kind]()
            elif kind in ('KTc', 'KUtc'):
                o = self.cls[kind](x_center=1.0, y_min=0.0, y_max=1.0)
            elif kind == 'mywg':
                o = self.MyWaveguide()
            elif kind == 'mycol':
                o = self.MyColumn(x_center=1.0, y_min=0.0, y_max=1.0)
            elif kind == 'none':
                o = None
            elif kind == 'int':
                o = 5
            elif kind == 'str':
                o = 'wg'
            else:
                o = 2.5
        self.keep.append(o)
        return o

    def lit(self, x):
        if isinstance(x, list):
            return '(Grp %s)' % clist(self.lit(v) for v in x)
        t = type(x)
        if t in self.types:
            k = self.types[t]
        elif t is self.MyWaveguide:
            k = '(KSubWg 1%N)'
        elif t is self.MyColumn:
            k = '(KSubTc 1%N)'
        else:
            k = '(KOther %s)' % cn(self.other.get(t, 99))
        key = id(x) if t in self.types or t in (self.MyWaveguide, self.MyColumn) else ('v', repr(x))
        if key not in self.ids:
            self.ids[key] = len(self.ids) + 1
        return '(Obj %s %s)' % (k, cn(self.ids[key]))


def gen_obj(rng, pool, foreign=0.1):
    if rng.random() < foreign:
        return pool.make(rng.choice(['none', 'int', 'str', 'mywg', 'mycol', 'float']))
    return pool.make(rng.choice(KINDS))


def gen_list(rng, pool, depth=0):
    n = rng.choice([0, 1, 2, 3, 4])
    out = []
    for _ in range(n):
        k = rng.random()
        if k < 0.25 and depth < 2:
            # a group: mostly homogeneous waveguides
            m = rng.choice([0, 1, 2, 3]) if rng.random() < 0.15 else rng.choice([1, 2, 3])
            if rng.random() < 0.8:
                kind = rng.choice(['KWg', 'KWg', 'KWg', 'KMk', 'KNwg', 'KTc'])
                g = [pool.make(kind) for _ in range(m)]
            else:
                g = [gen_obj(rng, pool, 0.2) for _ in range(m)]
            if rng.random() < 0.08 and depth < 1:
                g = [g]
            out.append(g)
        else:
            out.append(gen_obj(rng, pool, 0.06))
    return out


def gen_history(rng, pool):
    ops = []
    for _ in range(rng.randint(1, 8)):
        k = rng.random()
        if k < 0.3:
            arg = gen_obj(rng, pool, 0.12) if rng.random() < 0.8 else gen_list(rng, pool, 1)
            ops.append(('DAppend', arg))
        elif k < 0.7:
            arg = gen_list(rng, pool) if rng.random() < 0.93 else gen_obj(rng, pool, 0.5)
            ops.append(('DExtend', arg))
        elif k < 0.82:
            w = rng.choice(KINDS)
            arg = pool.make(w) if rng.random() < 0.7 else gen_obj(rng, pool, 0.3)
            ops.append(('WAppend', w, arg))
        else:
            w = rng.choice(KINDS)
            if rng.random() < 0.7:
                arg = [pool.make(w) if rng.random() < 0.8 else [pool.make(w), pool.make(w)] for _ in range(rng.randint(0, 3))]
            else:
                arg = gen_list(rng, pool)
            ops.append(('WExtend', w, arg))
    return ops


def snapshot(x):
    """structure with identities, as a nested tuple"""
    if isinstance(x, list):
        return ('L', tuple(snapshot(v) for v in x))
    return ('O', id(x))


def run_history(pool, ops):
    from femto.device import Device
    with pgm.quiet():
        dev = Device(filename='dev.pgm')
    order = [pool.cls[k] for k in KINDS]
    excs, after_lits, op_lits, changed = [], [], [], []
    for op in ops:
        arg = op[-1]
        before_lit = pool.lit(arg)
        code = 0
        with pgm.quiet():
            try:
                if op[0] == 'DAppend':
                    dev.append(arg)
                elif op[0] == 'DExtend':
                    dev.extend(arg)
                elif op[0] == 'WAppend':
                    dev.writers[pool.cls[op[1]]].append(arg)
                else:
                    dev.writers[pool.cls[op[1]]].extend(arg)
            except TypeError:
                code = 1
            except ValueError:
                code = 2
            except IndexError:
                code = 3
            except Exception:
                code = 9
        excs.append(code)
        after_lits.append(pool.lit(arg))
        if op[0] in ('DAppend', 'DExtend'):
            op_lits.append('(%s %s)' % (op[0], before_lit))
        else:
            op_lits.append('(%s %s %s)' % (op[0], op[1], before_lit))
    fin = clist(pool.lit(dev.writers[t].obj_list)[len('(Grp '):-1] for t in order)
    return 'CHist %s %s %s %s' % (clist(op_lits), clist(cn(c) for c in excs), fin, clist(after_lits))


def describe(pool, ops):
    def d(x):
        if isinstance(x, list):
            return [d(v) for v in x]
        return type(x).__name__
    return [[op[0]] + list(op[1:-1]) + [d(op[-1])] for op in ops]


def nontrivial(descr):
    kinds, group, foreign = set(), False, False

    def walk(x, top=True):
        nonlocal group, foreign
        if isinstance(x, list):
            if not top:
                group = True
            for v in x:
                walk(v, False)
        else:
            if x in ('NoneType', 'int', 'str', 'float', 'MyWaveguide', 'MyColumn'):
                foreign = True
            kinds.add(x)
    for op in descr:
        walk(op[-1])
    return len(kinds) >= 2 or group or foreign


def run(rep: common.Report, tier: str, seed: int):
    rng = common.rng_for(seed, 'C16', 'main')
    quick = tier == 'quick'
    cases, lits = [], []
    hist = {'ops': {}, 'exceptions': {}, 'init': 0}
    for _ in range(400 if quick else 6000):
        pool = Pool()
        ops = gen_history(rng, pool)
        lit = run_history(pool, ops)
        lits.append('(' + lit + ')')
        descr = describe(pool, ops)
        cases.append({'kind': 'history', 'ops': descr})
        for op in descr:
            hist['ops'][op[0]] = hist['ops'].get(op[0], 0) + 1
    # trench writers constructed from a single column / a list / nested lists
    from femto.writer import TrenchWriter, UTrenchWriter
    for _ in range(40 if quick else 400):
        pool = Pool()
        u = rng.random() < 0.5
        kind = 'KUtc' if u else 'KTc'
        k = rng.random()
        if k < 0.4:
            arg = pool.make(kind)
        elif k < 0.8:
            arg = [pool.make(kind) for _ in range(rng.randint(0, 3))]
        else:
            arg = [pool.make(kind), [pool.make(kind)]]
        before = pool.lit(arg)
        ok, objs = True, []
        with pgm.quiet():
            try:
                w = (UTrenchWriter if u else TrenchWriter)(arg, filename='t.pgm')
                objs = w.obj_list
                _ = (w.trenches, getattr(w, 'beds', None))
            except Exception as e:
                ok = False
                err = repr(e)
        lits.append('(CInit %s %s %s)' % (before, cb(ok), pool.lit(list(objs))[len('(Grp '):-1]))
        cases.append({'kind': 'init', 'writer': 'UTrenchWriter' if u else 'TrenchWriter',
                      'arg': 'single column' if not isinstance(arg, list) else describe(pool, [('x', arg)])[0][-1]})
        hist['init'] += 1
    # writers constructed from a list the caller keeps, then grown through their own append / extend: the caller's list is
    # left as it was, the writer holds the given objects followed by the added ones, a second writer built from the same list
    # does not see them (aliasing is observed, not modelled)
    from femto.writer import MarkerWriter, NasuWriter, WaveguideWriter
    wcls = {'KTc': TrenchWriter, 'KUtc': UTrenchWriter, 'KWg': WaveguideWriter, 'KNwg': NasuWriter, 'KMk': MarkerWriter}

    def flat_ids(x):
        return [i for v in x for i in flat_ids(v)] if isinstance(x, list) else [id(x)]
    for _ in range(60 if quick else 600):
        pool = Pool()
        kind = rng.choice(KINDS)
        given = [pool.make(kind) for _ in range(rng.randint(0, 3))]
        if kind == 'KWg' and rng.random() < 0.4:
            given.append([pool.make(kind), pool.make(kind)])
        snap = snapshot(given)
        added, calls = [], []
        with pgm.quiet():
            w1 = wcls[kind](given, filename='w.pgm')
            for _ in range(rng.randint(1, 3)):
                if rng.random() < 0.5:
                    o = pool.make(kind)
                    w1.append(o)
                    added.append(o)
                    calls.append('append')
                else:
                    lst = [pool.make(kind) for _ in range(rng.randint(0, 2))]
                    lsnap = snapshot(lst)
                    w1.extend(lst)
                    added.extend(lst)
                    calls.append('extend')
                    if snapshot(lst) != lsnap:
                        snap = None
            w2 = wcls[kind](given, filename='w2.pgm')
        bad = []
        if snap is None or snapshot(given) != snap:
            bad.append('callers-list-modified')
        if flat_ids(w1.obj_list) != flat_ids(given) + flat_ids(added) if snap is not None and snapshot(given) == snap else False:
            bad.append('collection')
        if w2.obj_list is w1.obj_list or (snap is not None and snapshot(given) == snap and flat_ids(w2.obj_list) != flat_ids(given)):
            bad.append('second-writer-shares-the-collection')
        hist['kept-list'] = hist.get('kept-list', 0) + 1
        if bad:
            rep.violation('C16/writer-from-kept-list/' + '+'.join(bad),
                          f'{wcls[kind].__name__} built from a list the caller keeps, then {calls}: ' + '+'.join(bad),
                          {'input': {'writer': wcls[kind].__name__, 'given': len(given), 'calls': calls}})
    fails = common.run_model('C16', 'Harness.C16', 'C16.case', 'C16.failing', lits, shard=150, extra_imports=IMPORTS)
    for idx, code in fails:
        c = cases[idx]
        if c['kind'] == 'init':
            rep.violation(f'C16/{c["writer"]}/constructor/' + ('single-column' if c['arg'] == 'single column' else 'list'),
                          f'{c["writer"]}({c["arg"]}) does not behave like the one-element list', {'input': c, 'code': code})
            continue
        which = [n for k, n in enumerate(['exceptions', 'collections', 'arguments-modified']) if code >> k & 1]
        rep.violation('C16/history/' + '+'.join(which), 'device/writer history: ' + '+'.join(which) + ' differ from the routing model',
                      {'input': c, 'failed': which})
    seen, nt = set(), 0
    for c in cases:
        h = common.digest(c)
        if h in seen:
            continue
        seen.add(h)
        nt += c['kind'] == 'init' or nontrivial(c['ops'])
    rep.coverage.update({
        'evaluations': len(cases) + hist.get('kept-list', 0), 'distinct_nontrivial': nt,
        'rule': 'case = history of Device.append/extend and writer append/extend calls on real objects (5 kinds, subclasses, foreign '
                'values, groups, nested groups) or a TrenchWriter/UTrenchWriter constructor call; non-trivial: >= 2 kinds, a group or a foreign value',
        'samples': cases[:2] + cases[-1:], 'traces_validated_against_impl': len(cases), 'disagreements_checked': len(fails),
        'distribution': hist,
    })


def replay(data):
    return common.replay_by_rerun('C16', data, run)
